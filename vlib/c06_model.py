"""C06 — online oracle for the game lifecycle (pure Python, no mpf import).

The oracle is fed, in the order things really happen:
  * first(ev, kw) / last(ev, kw): the highest- and the lowest-priority handler of each of the 19 lifecycle
    events was invoked (first == "the event was posted/dispatched", last == "all its handlers, including every
    queue hold, are done");
  * the requests the workload makes, at the instant they reach the game (direct call, or our own top-priority
    handler on the request event): end_ball / end_game / slam_tilt / tilt / player add, extra-ball awards,
    drains (after the save handler), balls added to play;
  * tick(now): virtual time passed (bounded-progress clauses).

It is a push-down automaton over the lifecycle grammar with player/ball counters plus a small SET-valued model
of balls in play (set-valued because a drain that arrives while a ball is still starting may or may not count:
the statement is silent, both are accepted).
"""

LIFECYCLE = [
    "game_will_start", "game_starting", "game_started",
    "player_turn_will_start", "player_turn_starting", "player_turn_started",
    "ball_will_start", "ball_starting", "ball_started",
    "ball_will_end", "ball_ending", "ball_ended",
    "player_turn_will_end", "player_turn_ending", "player_turn_ended",
    "game_will_end", "game_ending", "game_ended",
]
QUEUE_EVENTS = ["game_starting", "player_turn_starting", "ball_starting", "ball_ending", "player_turn_ending",
                "game_ending"]

NEXT = {
    None: ("game_will_start",),
    "game_will_start": ("game_starting",),
    "game_starting": ("game_started",),
    "game_started": ("player_turn_will_start", "game_will_end"),
    "player_turn_will_start": ("player_turn_starting",),
    "player_turn_starting": ("player_turn_started",),
    "player_turn_started": ("ball_will_start",),
    "ball_will_start": ("ball_starting",),
    "ball_starting": ("ball_started",),
    "ball_started": ("ball_will_end",),
    "ball_will_end": ("ball_ending",),
    "ball_ending": ("ball_ended",),
    "ball_ended": ("ball_will_start", "player_turn_will_end"),
    "player_turn_will_end": ("player_turn_ending",),
    "player_turn_ending": ("player_turn_ended",),
    "player_turn_ended": ("player_turn_will_start", "game_will_end"),
    "game_will_end": ("game_ending",),
    "game_ending": ("game_ended",),
    "game_ended": ("game_will_start",),
}

CLAUSES = ["grammar", "nesting", "args", "turn_order", "ball_number", "extra_ball", "game_end_legit",
           "ball_end_cause", "ball_end_progress", "end_request_honoured", "bip_range", "after_end", "game_progress",
           "bpg_change", "ball_start_progress"]


class Oracle:
    def __init__(self, balls_per_game, balls_known, horizon, start_horizon=5.0):
        self.B = balls_per_game   # balls per game of the CURRENT game (as configured when that game started)
        self.B_next = balls_per_game   # what the configuration evaluates to now: the next game has to use it
        self.B_prev = None        # balls per game of the previous game on this machine
        self.B_hist = []          # ... of all earlier games on this machine
        self.K = balls_known
        self.H = horizon
        self.H_start = start_horizon
        # physical playfield (only when the driver keeps one): balls on it, since when it is empty
        self.pf_tracked = False
        self.pf = 0
        self.pf_empty_since = 0.0
        self.bws_done_at = None   # when the handlers of the pending ball_will_start were done
        self.bws_waited = False   # a ball was on the playfield while that ball start was pending
        self.bws_flagged = False
        self.viol = []
        self.clauses = {c: 0 for c in CLAUSES}
        self.obs = {"games_started": 0, "games_ended": 0, "turns": 0, "balls": 0, "extra_balls_played": 0,
                    "players_added": 0, "late_adds_accepted": 0, "adds_denied": 0, "ambiguous_ball_ops": 0,
                    "end_requests_in_ball": 0, "end_requests_outside_ball": 0, "games_cut_short": 0,
                    "ball_ends_by_zero": 0, "ball_ends_by_request": 0, "max_players_seen": 0,
                    "games_after_bpg_change": 0, "ball_starts_with_ball_on_playfield": 0,
                    "max_ball_start_wait_x100": 0}
        self.trace = []
        self.now = 0.0
        self.st = None            # last lifecycle event dispatched (None == no game)
        self.prev_done = True
        self.game_no = 0
        self.pre_req = []         # requests that reached the game object before game_will_start was dispatched
        self.bpg_changed = False
        self._reset_game()

    # ------------------------------------------------------------------------------------------
    def _reset_game(self):
        self.N = 0                # highest player number announced by player_will_add
        self.inflight = []        # virtual times of add requests that may still be unresolved
        self.turns = {}           # player -> turns begun
        self.cur_p = None
        self.cur_b = None
        self.turn_open = False
        self.last_turn = None     # (player, ball) of the previous turn
        self.k = 0                # balls begun in this turn
        self.E = {}               # player -> extra balls awarded and not yet played
        self.E_snap = 0
        self.ball = None          # None | "starting" | "live" | "ending"
        self.bip = set()          # possible (value, reached_zero)
        self.amb = []             # ops seen while the ball was starting
        self.may_end = False
        self.must_end = False
        self.must_since = None
        self.carry_may = False    # an end request arrived outside any ball: the next ball may honour it
        self.end_req = None       # None | "gap" | "firm"   (end_game / slam tilt)
        self.end_any = False
        self.tilt_any = False
        self.late_add = False
        self.stale_bpg = False    # a ball event carried balls_remaining computed from the previous game's value

    def V(self, clause, sig, **detail):
        if len(self.viol) < 12:
            detail.update(game=self.game_no, t=round(self.now, 4), after=self.st, player=self.cur_p, ball=self.cur_b,
                          trace_tail=self.trace[-14:])
            self.viol.append({"clause": clause, "sig": sig, "detail": detail})

    def active(self):
        return self.st is not None and self.st != "game_ended"

    def _sig(self, generic):
        if self.stale_bpg:
            return "C06:stale_balls_per_game_from_previous_game"
        return "C06:player_add_after_first_round_rotation" if self.late_add else generic

    def set_balls_per_game(self, value):
        """The configured balls_per_game (template) evaluates to `value` from now on."""
        self.B_next = value

    # ------------------------------------------------------------------------------------------
    # lifecycle events
    def first(self, ev, kw, now):
        self.now = now
        st = self.st if self.st != "game_ended" else None
        self.trace.append("%s%s" % (ev, self._fmt(ev, kw)))
        self.clauses["nesting"] += 1
        if not self.prev_done:
            self.V("nesting", "C06:event_posted_before_previous_event_completed", event=ev)
        self.clauses["grammar"] += 1
        allowed = NEXT[st]
        if ev not in allowed:
            self.V("grammar", self._grammar_sig(st, ev), event=ev, allowed=list(allowed))
            # resynchronise: adopt the event so that one slip is reported once
        self.prev_done = False
        getattr(self, "_on_" + ev)(kw, st)
        self.st = ev

    def last(self, ev, kw, now):
        self.now = now
        if ev != self.st:
            self.clauses["nesting"] += 1
            self.V("nesting", "C06:handlers_of_events_interleaved", event=ev)
            return
        self.prev_done = True
        if ev == "ball_will_start":
            self.bws_done_at = now
        if ev == "ball_ended":
            self.E_snap = self.E.get(self.cur_p, 0)
        elif ev == "player_turn_ended":
            self.turn_open = False
        elif ev == "game_ended":
            self.obs["games_ended"] += 1

    def _grammar_sig(self, st, ev):
        if st is None:
            return "C06:lifecycle_event_without_game"
        if ev == "game_will_start":
            return "C06:game_started_while_game_active"
        return "C06:lifecycle_event_out_of_order"

    @staticmethod
    def _fmt(ev, kw):
        if ev.startswith("player_turn"):
            return "(%s)" % kw.get("number")
        if ev in ("ball_will_start", "ball_starting", "ball_started"):
            return "(p%s,b%s%s)" % (kw.get("player"), kw.get("ball"), ",x" if kw.get("is_extra_ball") else "")
        return ""

    # -- game -----------------------------------------------------------------------------------
    def _on_game_will_start(self, kw, st):
        self._reset_game()
        self.game_no += 1
        self.obs["games_started"] += 1
        if self.game_no > 1:
            self.B_prev = self.B
            self.B_hist.append(self.B)
        self.B = self.B_next      # balls_per_game as evaluated at this game's start
        self.bpg_changed = self.B_prev is not None and self.B_prev != self.B
        if self.bpg_changed:
            self.obs["games_after_bpg_change"] += 1
        if self.pre_req:
            # requests that reached the game object before its game_will_start was dispatched: whether they
            # belong to this game cannot be observed from outside, so they only widen what is accepted
            self.end_any = self.end_any or any(r in ("end_game", "slam") for r in self.pre_req)
            self.tilt_any = self.tilt_any or any(r in ("tilt", "slam") for r in self.pre_req)
            self.carry_may = True
            self.obs["end_requests_outside_ball"] += len(self.pre_req)
        self.pre_req = []

    def _on_game_starting(self, kw, st):
        pass

    def _on_game_started(self, kw, st):
        pass

    def _on_game_will_end(self, kw, st):
        self.clauses["game_end_legit"] += 1
        if self.bpg_changed:
            self.clauses["bpg_change"] += 1
        complete = False
        if self.last_turn is not None:
            p, b = self.last_turn
            complete = b >= self.B and p >= self.N
        if not complete:
            if self.end_any:
                self.obs["games_cut_short"] += 1
            else:
                self.V("game_end_legit", self._sig("C06:game_ended_before_all_turns_played"),
                       last_turn=self.last_turn, players=self.N, balls_per_game=self.B, turns=dict(self.turns))

    def _on_game_ending(self, kw, st):
        pass

    def _on_game_ended(self, kw, st):
        pass

    # -- turns ----------------------------------------------------------------------------------
    def _n_hi(self):
        self.inflight = [t for t in self.inflight if t >= self.now]
        return self.N + len(self.inflight)

    def _on_player_turn_will_start(self, kw, st):
        q = kw.get("number")
        pl = kw.get("player")
        self.clauses["args"] += 1
        if getattr(pl, "number", q) != q:
            self.V("args", "C06:turn_event_player_object_mismatch", number=q, player=repr(pl))
        self.obs["turns"] += 1
        n_hi = self._n_hi()
        # end requests
        self.clauses["end_request_honoured"] += 1
        if self.end_req == "firm":
            self.V("end_request_honoured", "C06:new_turn_after_end_requested", number=q)
        elif self.end_req == "gap":
            self.end_req = "firm"
        # order
        self.clauses["turn_order"] += 1
        b = self.turns.get(q, 0) + 1 if isinstance(q, int) else None
        ok = isinstance(q, int) and 1 <= q <= max(n_hi, 1)
        why = "no such player"
        if ok:
            if self.last_turn is None:
                ok = q == 1
                why = "first turn is not player 1"
            else:
                p0, b0 = self.last_turn
                same_round = q == p0 + 1 and b == b0
                next_round = q == 1 and p0 >= self.N and b == b0 + 1
                ok = same_round or next_round
                why = "not the round-robin successor"
        if not ok:
            self.V("turn_order", self._sig("C06:turn_order_not_round_robin"), number=q, ball_for_player=b, why=why,
                   previous_turn=self.last_turn, players=self.N, turns=dict(self.turns))
        if isinstance(q, int):
            self.turns[q] = self.turns.get(q, 0) + 1
        self.clauses["ball_number"] += 1
        if b is not None and b > self.B:
            self.V("ball_number", self._sig("C06:ball_number_exceeds_balls_per_game"), number=q, ball=b,
                   balls_per_game=self.B, turns=dict(self.turns))
        self.cur_p, self.cur_b = q, b
        self.turn_open = True
        self.k = 0
        self.last_turn = (q, b)

    def _turn_arg(self, ev, kw):
        self.clauses["args"] += 1
        if kw.get("number") != self.cur_p or getattr(kw.get("player"), "number", self.cur_p) != self.cur_p:
            self.V("args", self._sig("C06:turn_event_wrong_player"), event=ev, number=kw.get("number"),
                   expected=self.cur_p)

    def _on_player_turn_starting(self, kw, st):
        self._turn_arg("player_turn_starting", kw)

    def _on_player_turn_started(self, kw, st):
        self._turn_arg("player_turn_started", kw)

    def _on_player_turn_will_end(self, kw, st):
        self._turn_arg("player_turn_will_end", kw)
        self.clauses["extra_ball"] += 1
        if self.E_snap > 0 and not self.end_any and st == "ball_ended":
            self.V("extra_ball", "C06:turn_ended_with_extra_ball_pending", pending=self.E_snap, balls_in_turn=self.k)

    def _on_player_turn_ending(self, kw, st):
        self._turn_arg("player_turn_ending", kw)

    def _on_player_turn_ended(self, kw, st):
        self._turn_arg("player_turn_ended", kw)

    # -- balls ----------------------------------------------------------------------------------
    def _ball_args(self, ev, kw):
        self.clauses["args"] += 1
        exp = {"player": self.cur_p, "ball": self.cur_b,
               "balls_remaining": None if self.cur_b is None else self.B - self.cur_b,
               "is_extra_ball": self.k > 1}
        got = {k: kw.get(k) for k in exp}
        if got != exp:
            if self.cur_b is not None and isinstance(got["balls_remaining"], int) and \
                    got["balls_remaining"] + self.cur_b in self.B_hist and \
                    all(got[k] == exp[k] for k in exp if k != "balls_remaining"):
                # numbers are right for the balls_per_game of an earlier game on this machine
                self.stale_bpg = True
            self.V("args", self._sig("C06:ball_event_wrong_numbers"), event=ev, got=got, expected=exp,
                   balls_per_game=self.B, balls_per_game_earlier_games=list(self.B_hist))

    def _on_ball_will_start(self, kw, st):
        self.k += 1
        self.obs["balls"] += 1
        if self.k > 1:
            self.obs["extra_balls_played"] += 1
            self.clauses["extra_ball"] += 1
            have = self.E.get(self.cur_p, 0)
            if have < 1:
                self.V("extra_ball", "C06:extra_ball_played_without_award", balls_in_turn=self.k)
            else:
                self.E[self.cur_p] = have - 1
        self._ball_args("ball_will_start", kw)
        self.bws_done_at = None
        self.bws_waited = self.pf_tracked and self.pf > 0
        self.bws_flagged = False
        self.ball = "starting"
        self.bip = set()
        self.amb = []
        self.may_end = self.carry_may
        self.carry_may = False
        self.must_end = False
        self.must_since = None

    def _on_ball_starting(self, kw, st):
        self._ball_args("ball_starting", kw)
        if self.bws_waited and not self.bws_flagged:
            # the game had to wait for the playfield to become empty and did go on afterwards
            self.clauses["ball_start_progress"] += 1
            self.obs["ball_starts_with_ball_on_playfield"] += 1
            if self.pf_empty_since is not None and self.bws_done_at is not None:
                w = self.now - max(self.pf_empty_since, self.bws_done_at)
                self.obs["max_ball_start_wait_x100"] = max(self.obs["max_ball_start_wait_x100"], int(w * 100))
        self.bws_done_at = None

    def _on_ball_started(self, kw, st):
        self._ball_args("ball_started", kw)
        # the ball went live somewhere between ball_will_start and now: every split of the ambiguous ops is possible
        states = set()
        for s in range(len(self.amb) + 1):
            v, z = 1, False
            for kind, n in self.amb[s:]:
                v, z = self._apply(v, z, kind, n)
            states.add((v, z))
        if self.amb:
            self.obs["ambiguous_ball_ops"] += len(self.amb)
        self.bip = states
        self.amb = []
        self.ball = "live"
        if self.must_end:
            self.must_since = self.now      # requested while the ball was starting: due from now on
        self._update_must()

    def _apply(self, v, z, kind, n):
        if kind == "drain":
            nv = max(0, v - n)
            return nv, z or (v > 0 and nv == 0)
        return min(self.K, v + n), z

    def _update_must(self):
        if self.ball == "live" and not self.must_end and self.bip and all(z for _, z in self.bip):
            self.must_end = True
            self.must_since = self.now

    def _on_ball_will_end(self, kw, st):
        self.clauses["ball_end_cause"] += 1
        zero = any(z for _, z in self.bip)
        if zero:
            self.obs["ball_ends_by_zero"] += 1
        elif self.may_end or self.must_end:
            self.obs["ball_ends_by_request"] += 1
        else:
            self.V("ball_end_cause", "C06:ball_ended_without_drain_or_request", balls_in_play_model=sorted(self.bip))
        if self.must_end:
            self.clauses["ball_end_progress"] += 1
            if self.must_since is not None and self.now - self.must_since > self.H:
                self.V("ball_end_progress", "C06:ball_end_delayed_after_zero_or_request", due_since=self.must_since,
                       balls_in_play_model=sorted(self.bip))
        self.ball = "ending"
        self.must_end = False
        self.must_since = None

    def _on_ball_ending(self, kw, st):
        pass

    def _on_ball_ended(self, kw, st):
        self.ball = None

    # ------------------------------------------------------------------------------------------
    # requests (called at the instant they reach the game)
    def request(self, kind, now, deliverable=True):
        """kind: end_ball | end_game | slam | tilt."""
        self.now = now
        if not deliverable:
            return
        if self.st is None or self.st == "game_ended":
            self.pre_req.append(kind)
            return
        self._apply_request(kind)

    def _apply_request(self, kind):
        if self.st in ("game_will_end", "game_ending"):
            return
        self.trace.append("<%s>" % kind)
        firm_ball = True
        if kind in ("slam", "tilt"):
            # Tilt.tilt() ignores the request while the game is tilted or ending
            firm_ball = not (self.tilt_any or self.end_any)
            self.tilt_any = True
        if kind in ("end_game", "slam"):
            self.end_any = True
            if self.end_req is None:
                self.end_req = "firm" if self.turn_open else "gap"
            elif self.end_req == "gap" and self.turn_open:
                self.end_req = "firm"
        if self.ball in ("starting", "live"):
            self.obs["end_requests_in_ball"] += 1
            self.may_end = True
            if firm_ball and not self.must_end:
                self.must_end = True
                self.must_since = self.now
        elif self.ball is None:
            self.obs["end_requests_outside_ball"] += 1
            self.carry_may = True

    def add_requested(self, now):
        self.now = now
        self.inflight.append(now)
        self.trace.append("<add?>")

    def add_denied(self, now):
        self.now = now
        self.obs["adds_denied"] += 1
        if self.inflight:
            self.inflight.pop(0)

    def player_will_add(self, number, now):
        self.now = now
        self.trace.append("player_will_add(%s)" % number)
        if self.inflight:
            self.inflight.pop(0)
        if isinstance(number, int) and number > self.N:
            self.N = number
        self.obs["players_added"] += 1
        self.obs["max_players_seen"] = max(self.obs["max_players_seen"], self.N)
        if self.turns.get(1, 0) >= 2:
            self.late_add = True
            self.obs["late_adds_accepted"] += 1

    def award(self, player_number, now):
        self.now = now
        self.E[player_number] = self.E.get(player_number, 0) + 1
        self.trace.append("<eb p%s>" % player_number)

    def playfield(self, balls, now):
        """The driver's physical playfield now holds `balls` balls."""
        self.now = now
        self.pf_tracked = True
        self.pf = balls
        if balls > 0:
            self.pf_empty_since = None
            if self.st == "ball_will_start":
                self.bws_waited = True
        elif self.pf_empty_since is None:
            self.pf_empty_since = now

    def ball_op(self, kind, n, now):
        """kind: drain (n balls left play, after saves) | add (n balls added to play)."""
        self.now = now
        if n <= 0:
            return
        self.trace.append("<%s %d>" % (kind, n))
        if self.ball == "starting":
            self.amb.append((kind, n))
        elif self.ball == "live":
            self.bip = set(self._apply(v, z, kind, n) for v, z in self.bip)
            self._update_must()

    # ------------------------------------------------------------------------------------------
    def tick(self, now):
        self.now = now
        if self.ball == "live" and self.must_end and self.must_since is not None and now - self.must_since > self.H:
            self.clauses["ball_end_progress"] += 1
            self.V("ball_end_progress", "C06:ball_not_ended_after_zero_or_request", since=self.must_since,
                   balls_in_play_model=sorted(self.bip))
            self.must_since = None
        if self.pf_tracked and self.st == "ball_will_start" and self.prev_done and not self.bws_flagged and \
                self.bws_done_at is not None and self.pf_empty_since is not None and \
                now - max(self.pf_empty_since, self.bws_done_at) > self.H_start:
            self.clauses["ball_start_progress"] += 1
            self.bws_flagged = True
            self.V("ball_start_progress", "C06:ball_start_stuck_after_playfield_empty",
                   playfield_empty_since=self.pf_empty_since, ball_will_start_done_at=self.bws_done_at,
                   waited_for_ball_on_playfield=self.bws_waited)
