"""Custom mode code for C07: modes built on mpf.core.async_mode.AsyncMode (the documented base class for asyncio
modes).  Referenced from generated mode configs as `code: vlib.c07_async.<Class>`.  Imported in worker processes only
(after vlib.boot.guard_import() put the tree under test first on sys.path)."""
import asyncio

from mpf.core.async_mode import AsyncMode


class C07AsyncForever(AsyncMode):

    """Runs until it is stopped."""

    async def _run(self):
        await asyncio.Event().wait()


class C07AsyncFinite(AsyncMode):

    """Task ends on its own after a while: AsyncMode then stops the mode itself (_mode_ended)."""

    async def _run(self):
        await asyncio.sleep(0.7)
