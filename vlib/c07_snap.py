"""C07 helper: normalised snapshots of the machine's registries and attribution of entries to modes.

Everything here only READS public registries (EventManager.registered_handlers, SwitchController.registered_switches /
_active_timed_switches, the loop's scheduled timer handles).  Entries are normalised without object ids or handler
uuids so that two registrations of the same thing at different times compare equal:

  ("E", event, callback-description, priority, kwargs-description)      event handlers
  ("S", switch, state, ms, callback-description)                        switch handlers
  ("T", switch, state, ms, callback-description)                        pending timed switch entries
  ("L", callback-description)                                           pending (not cancelled) loop timers

Attribution ("registered on behalf of mode X"): the callback (through functools.partial, DelayManager wrappers and
PeriodicTask) is bound to the mode, to the mode's DelayManager, to a device listed in the mode's config or to that
device's own DelayManager; or the handler was registered with kwarg mode=<that mode> (Mode.add_mode_event_handler and
every config player do that); or it is a config-player handler registered with context=<mode name>.
"""
import functools
import re
from collections import Counter


def _is_scalar(v):
    return v is None or isinstance(v, (bool, int, float, str))


def describe_obj(o):
    name = getattr(o, "name", None)
    if isinstance(name, str):
        return "%s:%s" % (type(o).__name__, name)
    return type(o).__name__


def describe_cb(cb, depth=0):
    if depth > 6:
        return "..."
    if isinstance(cb, functools.partial):
        parts = [describe_cb(cb.func, depth + 1)]
        for a in cb.args:
            parts.append(describe_cb(a, depth + 1) if callable(a) else describe_val(a))
        for k in sorted(cb.keywords or {}):
            v = cb.keywords[k]
            parts.append("%s=%s" % (k, describe_cb(v, depth + 1) if callable(v) and not _is_scalar(v)
                                    else describe_val(v)))
        return "partial(%s)" % ",".join(parts)
    s = getattr(cb, "__self__", None)
    fn = getattr(cb, "__func__", None)
    if s is not None and fn is not None:
        return "%s.%s" % (describe_obj(s), fn.__name__)
    return getattr(cb, "__qualname__", None) or type(cb).__name__


_UUID = re.compile(r"^[0-9a-f]{8}-[0-9a-f]{4}-[0-9a-f]{4}-[0-9a-f]{4}-[0-9a-f]{12}$")


def describe_val(v):
    if isinstance(v, str) and _UUID.match(v):
        return "<uuid>"
    if _is_scalar(v):
        return repr(v)
    if hasattr(v, "name") and isinstance(getattr(v, "name"), str):
        return describe_obj(v)
    return type(v).__name__


def describe_kwargs(kw):
    return tuple(sorted((str(k), describe_val(v)) for k, v in (kw or {}).items()))


def owners_of(cb, depth=0):
    """Objects a callback is bound to (through partials / delay wrappers / periodic tasks)."""
    out = []
    if depth > 6 or cb is None:
        return out
    if isinstance(cb, functools.partial):
        out.extend(owners_of(cb.func, depth + 1))
        for a in cb.args:
            if callable(a) and not _is_scalar(a):
                out.extend(owners_of(a, depth + 1))
        for v in (cb.keywords or {}).values():
            if callable(v) and not _is_scalar(v) and (hasattr(v, "__self__") or isinstance(v, functools.partial)):
                out.extend(owners_of(v, depth + 1))
            elif type(v).__name__ == "Mode" or hasattr(v, "mode_devices"):
                out.append(v)
        return out
    s = getattr(cb, "__self__", None)
    if s is not None:
        out.append(s)
        if type(s).__name__ == "PeriodicTask":
            out.extend(owners_of(getattr(s, "_callback", None), depth + 1))
    return out


def timer_is_dead(handle):
    if getattr(handle, "_cancelled", False):
        return True
    cb = handle._callback
    s = getattr(cb, "__self__", None)
    if s is not None and type(s).__name__ == "PeriodicTask" and getattr(s, "_canceled", False):
        return True
    return False


class Attribution:
    """Maps owner objects to generated mode names."""

    def __init__(self, machine, mode_names):
        self.machine = machine
        self.by_id = {}
        self.kind = {}
        self.modes = {}
        for n in mode_names:
            mo = machine.modes[n]
            self.modes[n] = mo
            self._add(mo, n, "mode")
            self._add(mo.delay, n, "mode.delay")
            for section, cfg in mo.config.items():
                if section not in machine.config['mpf']['device_modules']:
                    continue
                coll = getattr(machine, section)
                for dev_name in cfg.keys():
                    dev = coll[dev_name]
                    self._add(dev, n, "device:%s" % getattr(dev, "class_label", section))
                    d = getattr(dev, "delay", None)
                    if d is not None and type(d).__name__ == "DelayManager":
                        self._add(d, n, "device.delay:%s" % getattr(dev, "class_label", section))

    def _add(self, obj, mode_name, kind):
        self.by_id[id(obj)] = (mode_name, obj)
        self.kind[id(obj)] = kind

    def refresh_delays(self):
        """Timer devices create their DelayManager lazily (_initialize); pick up new ones."""
        for oid, (n, obj) in list(self.by_id.items()):
            if self.kind[oid].startswith("device:"):
                d = getattr(obj, "delay", None)
                if d is not None and type(d).__name__ == "DelayManager" and id(d) not in self.by_id:
                    self._add(d, n, "device.delay:" + self.kind[oid].split(":", 1)[1])

    def of_callback(self, cb):
        """-> (mode_name, owner_kind) or (None, None)."""
        for o in owners_of(cb):
            hit = self.by_id.get(id(o))
            if hit is not None and hit[1] is o:
                return hit[0], self.kind[id(o)]
        return None, None

    def of_handler(self, callback, kwargs):
        n, k = self.of_callback(callback)
        if n is not None:
            return n, k
        kw = kwargs or {}
        mo = kw.get("mode")
        if mo is not None:
            hit = self.by_id.get(id(mo))
            if hit is not None and hit[1] is mo:
                return hit[0], "kwarg_mode"
        ctx = kw.get("context")
        if isinstance(ctx, str) and ctx in self.modes:
            s = getattr(callback, "__self__", None)
            if s is not None and hasattr(s, "config_file_section"):
                return ctx, "player_context"
        cb2 = kw.get("callback")
        if cb2 is not None and callable(cb2):
            n, k = self.of_callback(cb2)
            if n is not None:
                return n, k
        return None, None


class Snapshot:
    """all: Counter of every entry; per_mode: {mode: Counter of attributable entries}; kinds: entry -> owner kind."""

    def __init__(self):
        self.all = Counter()
        self.per_mode = {}
        self.kinds = {}

    def add(self, entry, mode_name, kind):
        self.all[entry] += 1
        if mode_name is not None:
            self.per_mode.setdefault(mode_name, Counter())[entry] += 1
            self.kinds[entry] = kind


def take(machine, loop, attr, with_timers=True):
    attr.refresh_delays()
    snap = Snapshot()
    ev = machine.events
    for event, hl in list(ev.registered_handlers.items()):
        for h in list(hl):
            entry = ("E", event, describe_cb(h.callback), h.priority, describe_kwargs(h.kwargs))
            n, k = attr.of_handler(h.callback, h.kwargs)
            snap.add(entry, n, k)
    sc = machine.switch_controller
    for sw, lists in list(sc.registered_switches.items()):
        for state, lst in enumerate(lists):
            for e in list(lst):
                entry = ("S", getattr(sw, "name", str(sw)), state, e.ms, describe_cb(e.callback))
                n, k = attr.of_callback(e.callback)
                snap.add(entry, n, k)
    for sw, by_time in list(sc._active_timed_switches.items()):
        for _t, lst in list(by_time.items()):
            for e in list(lst):
                entry = ("T", getattr(sw, "name", str(sw)), e.state, e.ms, describe_cb(e.callback))
                n, k = attr.of_callback(e.callback)
                snap.add(entry, n, k)
    if with_timers:
        for h in list(loop._scheduled):
            if timer_is_dead(h):
                continue
            cb = h._callback
            n, k = attr.of_callback(cb)
            if n is None:
                for a in (h._args or ()):
                    if callable(a) and not _is_scalar(a):
                        n, k = attr.of_callback(a)
                        if n is not None:
                            break
            if n is None:
                continue      # timers are only compared by attribution (lights, shows, players own theirs)
            inner = describe_cb(cb)
            snap.add(("L", inner), n, k)
    return snap


def diff(now, base):
    """-> (left, missing): entries (with multiplicity) in now but not in base, and vice versa."""
    left = now - base
    missing = base - now
    return left, missing
