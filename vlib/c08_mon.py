"""C08 monitor: wrappers at the two boundaries the property names, plus the oracles.

Boundary 1 (platform driver interface): VirtualDriver.pulse/enable/timed_enable/disable and
VirtualHardwarePlatform.set_*_rule are wrapped at class level; every call is logged with virtual time and
checked against the owner's envelope, which the monitor reads itself from the coil's validated config
(never through Driver.get_and_verify_*).

Boundary 2 (public actuation API): Driver.pulse/enable/timed_enable and PlatformController.set_*_rule are
wrapped at class level, so *every* caller (control events, coil player, shows, dual-wound coils, ejectors,
flippers, driver lights, direct calls) goes through the same independent rule table: a request above a limit
or with a negative duration/power must raise and must leave no driver call.

Offline oracle over the driver log: software-timed pulses and max_hold_duration holds are switched off in
time.
"""
import math

EPS = 1e-6

RULE_METHODS = (
    "set_pulse_on_hit_rule",
    "set_delayed_pulse_on_hit_rule",
    "set_pulse_on_hit_and_release_rule",
    "set_pulse_on_hit_and_enable_and_release_rule",
    "set_pulse_on_hit_and_release_and_disable_rule",
    "set_pulse_on_hit_and_enable_and_release_and_disable_rule",
)
RULES_WITH_HOLD = ("set_pulse_on_hit_and_enable_and_release_rule",
                   "set_pulse_on_hit_and_enable_and_release_and_disable_rule")


def num(x):
    """Numeric value of a parameter or None (None/str/other; NaN is 'no statement')."""
    if isinstance(x, bool):
        return int(x)
    if isinstance(x, (int, float)):
        if isinstance(x, float) and math.isnan(x):
            return None
        return x
    return None


def is_number(x):
    return isinstance(x, (int, float))


def is_nan(x):
    return isinstance(x, float) and math.isnan(x)


class Limits:
    """The owner's envelope of one coil, read from its validated config."""

    def __init__(self, coil):
        c = coil.config
        self.name = coil.name
        self.max_pulse_ms = c['max_pulse_ms'] if c['max_pulse_ms'] else None
        # max_pulse_power 0/None: envelope unclear (see ASSUMPTIONS) -> no upper statement
        self.max_pulse_power = c['max_pulse_power'] if c['max_pulse_power'] else None
        self.max_hold_power = c['max_hold_power'] if c['max_hold_power'] else None
        self.allow_enable = bool(c['allow_enable'])
        self.default_hold_power = c['default_hold_power'] if c['default_hold_power'] else None
        self.hold_allowed = bool(self.allow_enable or self.max_hold_power or self.default_hold_power)
        # the statement only names max_hold_power as upper bound; without it: physical maximum 1.0
        self.hold_upper = self.max_hold_power if self.max_hold_power else 1.0
        self.max_hold_duration = c['max_hold_duration'] if c['max_hold_duration'] else None   # seconds

    def as_dict(self):
        return {k: getattr(self, k) for k in ("name", "max_pulse_ms", "max_pulse_power", "max_hold_power",
                                              "allow_enable", "default_hold_power", "hold_allowed",
                                              "max_hold_duration")}

    # ---- independent rule table for REQUESTS (API boundary) -------------------------------------
    def request_reasons(self, method, p):
        """Reasons why this request must be refused (empty list: no statement)."""
        r = []
        v = num(p.get("pulse_ms"))
        if v is not None:
            if v < 0:
                r.append("negative_pulse_ms")
            elif self.max_pulse_ms is not None and v > self.max_pulse_ms:
                r.append("pulse_ms_above_max")
        v = num(p.get("pulse_power"))
        if v is not None:
            if v < 0:
                r.append("negative_pulse_power")
            elif self.max_pulse_power is not None and v > self.max_pulse_power:
                r.append("pulse_power_above_max")
        if method in ("enable", "timed_enable", "rule_hold"):
            v = num(p.get("hold_power"))
            if v is not None:
                if v < 0:
                    r.append("negative_hold_power")
                elif v > self.hold_upper:
                    r.append("hold_power_above_max")
                elif v > 0 and not self.hold_allowed and method != "timed_enable":
                    # (a hardware-timed hold is not "left held on": no statement for timed_enable)
                    r.append("hold_not_allowed")
            if method in ("enable", "rule_hold") and not self.hold_allowed and not \
                    [x for x in r if "hold" in x]:
                r.append("hold_not_allowed")
        if method == "timed_enable":
            v = num(p.get("timed_enable_ms"))
            if v is not None:
                if v < 0:
                    r.append("negative_timed_enable_ms")
                elif self.max_hold_duration is not None and v > self.max_hold_duration * 1000.0:
                    r.append("timed_enable_ms_above_max_hold_duration")
        return r

    # ---- envelope for COMMANDS (platform driver boundary) ---------------------------------------
    def _pulse_part(self, out, power, duration, what):
        if not is_number(duration):
            out.append(("non_numeric_pulse_ms", what))
        elif duration < 0:
            out.append(("negative_pulse_ms", what))
        elif self.max_pulse_ms is not None and duration > self.max_pulse_ms:
            out.append(("pulse_ms_above_max", what))
        if not is_number(power):
            out.append(("non_numeric_pulse_power", what))
        elif power < 0:
            out.append(("negative_pulse_power", what))
        elif self.max_pulse_power is not None and power > self.max_pulse_power:
            out.append(("pulse_power_above_max", what))

    def _hold_part(self, out, power, what):
        if not is_number(power):
            out.append(("non_numeric_hold_power", what))
        elif power < 0:
            out.append(("negative_hold_power", what))
        elif power > self.hold_upper:
            out.append(("hold_power_above_max", what))
        elif power > 0 and not self.hold_allowed and what != "timed_enable":
            out.append(("hold_not_allowed", what))

    def command_faults(self, ev):
        out = []
        k = ev["kind"]
        if k == "pulse":
            self._pulse_part(out, ev["pp"], ev["pd"], k)
        elif k == "sw_pulse":       # enable issued by Driver._pulse_now: judged as a pulse of sw_ms
            self._pulse_part(out, ev["pp"], ev["sw_ms"], k)
            if is_number(ev["hp"]) and is_number(ev["pp"]) and ev["hp"] != ev["pp"]:
                # held at another power than the verified pulse power: judge that power as pulse power too
                self._pulse_part(out, ev["hp"], 0, k)
        elif k == "enable":
            self._pulse_part(out, ev["pp"], ev["pd"], k)
            n0 = len(out)
            self._hold_part(out, ev["hp"], k)
            if not self.hold_allowed and len(out) == n0:
                out.append(("hold_not_allowed", k))
        elif k == "timed_enable":
            self._pulse_part(out, ev["pp"], ev["pd"], k)
            self._hold_part(out, ev["hp"], k)
            hd = ev["hd"]
            if not is_number(hd):
                out.append(("non_numeric_hold_duration", k))
            elif hd < 0:
                out.append(("negative_hold_duration", k))
            elif self.max_hold_duration is not None and hd > self.max_hold_duration * 1000.0:
                out.append(("hold_duration_above_max", k))
        elif k == "rule":
            self._pulse_part(out, ev["pp"], ev["pd"], k)
            if ev.get("has_hold"):
                n0 = len(out)
                self._hold_part(out, ev["hp"], k)
                if not self.hold_allowed and len(out) == n0:
                    out.append(("hold_not_allowed", k))
        return out


SIG_OF = {"negative_hold_duration": "negative_timed_enable_ms",
          "hold_duration_above_max": "timed_enable_ms_above_max_hold_duration",
          "non_numeric_pulse_ms": "non_numeric_value_reaches_driver",
          "non_numeric_pulse_power": "non_numeric_value_reaches_driver",
          "non_numeric_hold_power": "non_numeric_value_reaches_driver",
          "non_numeric_hold_duration": "non_numeric_value_reaches_driver"}


def sig_of(fault):
    """Mechanism signature: WHICH limit/sign test let the value through (same at every boundary)."""
    return SIG_OF.get(fault, fault)


class Monitor:

    def __init__(self):
        self.events = []        # platform-boundary log
        self.calls = 0
        self.stack = []         # active API-call records
        self.sw_ctx = []        # active Driver._pulse_now frames: (hw_driver id, pulse_ms)
        self.owners = {}        # id(hw_driver) -> ("coil", Driver) | ("dout", DigitalOutput)
        self.limits = {}        # id(hw_driver) -> Limits
        self.viol = []
        self.clauses = {"hw_limits": 0, "refusal": 0, "refusal_no_leak": 0, "sw_pulse_off": 0, "hold_limit": 0,
                        "rule_limits": 0, "rule_refusal": 0, "dout_limits": 0, "dout_sw_pulse_off": 0}
        self.obs = {"hw_pulse": 0, "hw_enable": 0, "hw_sw_pulse": 0, "hw_timed_enable": 0, "hw_disable": 0,
                    "hw_rule": 0, "api_calls": 0, "api_refused": 0, "api_must_refuse": 0, "rule_calls": 0,
                    "rule_refused": 0, "sw_pulse_superseded": 0, "dout_cmds": 0,
                    "dout_sw_pulse_superseded": 0}
        self.shape = set()
        self.loop = None
        self._patched = []
        self._flushed = 0
        self._guard = set()
        self.api_log = []       # short trace of API calls (for replays)

    # ------------------------------------------------------------------------------------------
    def now(self):
        loop = self.loop
        if loop is None:
            try:
                import asyncio
                loop = asyncio.get_event_loop_policy().get_event_loop()
            except Exception:   # noqa
                return 0.0
        try:
            return loop.time()
        except Exception:   # noqa
            return 0.0

    def violation(self, clause, sig, detail):
        if not sig.startswith("C08:"):
            sig = "C08:" + sig
        for v in self.viol:
            if v["sig"] == sig:
                v["detail"]["more"] = v["detail"].get("more", 0) + 1
                return
        self.viol.append({"clause": clause, "sig": sig, "detail": detail})

    def _patch(self, cls, name, make):
        orig = cls.__dict__.get(name)
        had = name in cls.__dict__
        base = getattr(cls, name)
        setattr(cls, name, make(base))
        self._patched.append((cls, name, had, orig))

    def uninstall(self):
        for cls, name, had, orig in reversed(self._patched):
            if had:
                setattr(cls, name, orig)
            else:
                try:
                    delattr(cls, name)
                except AttributeError:
                    pass
        self._patched = []

    # ------------------------------------------------------------------------------------------
    def install(self):
        from mpf.devices.driver import Driver
        from mpf.core.platform_controller import PlatformController
        from mpf.platforms.virtual import VirtualDriver, VirtualHardwarePlatform
        from mpf.core.platform import DriverPlatform
        mon = self

        # ---- platform driver boundary ----
        def mk_hw(kind):
            def make(orig):
                def wrapper(hw, *a, **k):
                    key = (id(hw), kind)
                    if key in mon._guard:
                        return orig(hw, *a, **k)
                    mon._guard.add(key)
                    try:
                        mon._log_hw(hw, kind, a, k)
                        return orig(hw, *a, **k)
                    finally:
                        mon._guard.discard(key)
                return wrapper
            return make
        for kind in ("pulse", "enable", "timed_enable", "disable"):
            self._patch(VirtualDriver, kind, mk_hw(kind))

        def mk_rule(name):
            def make(orig):
                def wrapper(platform, *a, **k):
                    key = (id(platform), name)
                    if key in mon._guard:
                        return orig(platform, *a, **k)
                    mon._guard.add(key)
                    try:
                        mon._log_rule(name, a, k)
                        return orig(platform, *a, **k)
                    finally:
                        mon._guard.discard(key)
                return wrapper
            return make
        for name in RULE_METHODS:
            cls = VirtualHardwarePlatform if name in VirtualHardwarePlatform.__dict__ else DriverPlatform
            self._patch(cls, name, mk_rule(name))

        # ---- public actuation API boundary ----
        def mk_api(method, argnames):
            def make(orig):
                def wrapper(coil, *a, **k):
                    params = dict(zip(argnames, a))
                    params.update(k)
                    return mon._api_call(coil, method, params, lambda: orig(coil, *a, **k))
                return wrapper
            return make
        self._patch(Driver, "pulse", mk_api("pulse", ("pulse_ms", "pulse_power", "max_wait_ms")))
        self._patch(Driver, "enable", mk_api("enable", ("pulse_ms", "pulse_power", "hold_power", "max_wait_ms")))
        self._patch(Driver, "timed_enable", mk_api("timed_enable", ("timed_enable_ms", "hold_power", "pulse_ms",
                                                                    "pulse_power", "max_wait_ms")))

        def make_pulse_now(orig):
            def wrapper(coil, pulse_ms, pulse_power):
                mon.sw_ctx.append((id(coil.hw_driver), pulse_ms))
                try:
                    return orig(coil, pulse_ms, pulse_power)
                finally:
                    mon.sw_ctx.pop()
            return wrapper
        self._patch(Driver, "_pulse_now", make_pulse_now)

        # driver-type digital outputs: an enable issued from inside DigitalOutput.pulse is a software-timed pulse
        from mpf.devices.digital_output import DigitalOutput

        def make_dout_pulse(orig):
            def wrapper(do, pulse_ms, *a, **k):
                if getattr(do, "type", None) != "driver" or do.hw_driver is None:
                    return orig(do, pulse_ms, *a, **k)
                mon.sw_ctx.append((id(do.hw_driver), pulse_ms))
                n0 = len(mon.events)
                raised = None
                try:
                    try:
                        return orig(do, pulse_ms, *a, **k)
                    except Exception as e:   # noqa
                        raised = e
                        raise
                finally:
                    mon.sw_ctx.pop()
                    mon._dout_request(do, pulse_ms, raised, n0)
            return wrapper
        self._patch(DigitalOutput, "pulse", make_dout_pulse)

        # harness workaround: after a crash-stop, a cancelled placeholder future re-subscribes for ever
        def mk_placeholder(orig):
            def wrapper(coil, *a):
                m = coil.machine
                if getattr(m, "is_shutting_down", False) or (m.stop_future is not None and m.stop_future.done()):
                    return None
                return orig(coil, *a)
            return wrapper
        self._patch(Driver, "_calculate_pulse_ms_placeholder", mk_placeholder)
        self._patch(Driver, "_calculate_timed_enable_ms_placeholder", mk_placeholder)

        def mk_rule_api(name):
            def make(orig):
                def wrapper(pc, *a, **k):
                    return mon._rule_api_call(pc, name, a, k, lambda: orig(pc, *a, **k))
                return wrapper
            return make
        for name in RULE_METHODS:
            self._patch(PlatformController, name, mk_rule_api(name))

    # ------------------------------------------------------------------------------------------
    def bind(self, machine):
        """After boot: resolve owners of the platform drivers."""
        self.loop = machine.clock.loop
        for coil in machine.coils.values():
            hw = getattr(coil, "hw_driver", None)
            if hw is not None and hasattr(coil, "get_and_verify_pulse_ms"):
                self.owners[id(hw)] = ("coil", coil)
                self.limits[id(hw)] = Limits(coil)
        for do in getattr(machine, "digital_outputs", {}).values():
            if getattr(do, "type", None) == "driver" and do.hw_driver is not None:
                self.owners[id(do.hw_driver)] = ("dout", do)
        self.flush()

    # ------------------------------------------------------------------------------------------
    def _log_hw(self, hw, kind, a, k):
        ev = {"seq": len(self.events), "t": self.now(), "hw": id(hw), "hwname": repr(hw), "kind": kind,
              "pp": None, "pd": None, "hp": None, "hd": None}
        args = list(a)
        ps = k.get("pulse_settings", args[0] if args else None)
        hs = k.get("hold_settings", args[1] if len(args) > 1 else None)
        if kind != "disable" and ps is not None:
            ev["pp"], ev["pd"] = getattr(ps, "power", None), getattr(ps, "duration", None)
        if hs is not None:
            ev["hp"], ev["hd"] = getattr(hs, "power", None), getattr(hs, "duration", None)
        if kind == "enable" and self.sw_ctx and self.sw_ctx[-1][0] == id(hw):
            ev["kind"] = "sw_pulse"
            ev["sw_ms"] = self.sw_ctx[-1][1]
        self.events.append(ev)
        for rec in self.stack:
            if rec["hw"] == id(hw) and kind != "disable":
                rec["cmds"].append(ev["seq"])
        self.obs["hw_" + ev["kind"]] += 1
        who = self._caller(3)
        ev["via"] = who
        if not who.startswith("via_driver_"):
            who = "hw_" + who
            self.obs[who] = self.obs.get(who, 0) + 1

    def _log_rule(self, name, a, k):
        ds = None
        for x in list(a) + list(k.values()):
            if hasattr(x, "hw_driver") and hasattr(x, "pulse_settings"):
                ds = x
        if ds is None:
            return
        ps, hs = ds.pulse_settings, ds.hold_settings
        ev = {"seq": len(self.events), "t": self.now(), "hw": id(ds.hw_driver), "hwname": repr(ds.hw_driver),
              "kind": "rule", "rule": name,
              "pp": getattr(ps, "power", None), "pd": getattr(ps, "duration", None),
              "has_hold": hs is not None, "hp": getattr(hs, "power", None) if hs is not None else None, "hd": None}
        self.events.append(ev)
        for rec in self.stack:
            if rec["hw"] == id(ds.hw_driver):
                rec["cmds"].append(ev["seq"])
        self.obs["hw_rule"] += 1

    # ------------------------------------------------------------------------------------------
    def _caller(self, depth):
        """Which code called the public actuation method (evidence that every entry point was exercised)."""
        import sys
        try:
            f = sys._getframe(depth)
            mod = f.f_globals.get("__name__", "?")
            while mod.startswith("mpf.platforms.") and not mod.endswith("driver_light_platform") and f.f_back:
                f = f.f_back            # SmartVirtualDriver -> super(): look at who called the platform driver
                mod = f.f_globals.get("__name__", "?")
            if mod == "mpf.devices.driver":
                return "via_driver_" + f.f_code.co_name.lstrip("_")
            if mod.startswith("checks.") or mod.startswith("vlib."):
                return "via_direct_call"
            return "via_" + mod.split(".")[-1]
        except Exception:   # noqa
            return "via_unknown"

    def _api_call(self, coil, method, params, run):
        who = self._caller(3)
        self.obs[who] = self.obs.get(who, 0) + 1
        lim = Limits(coil)
        reasons = lim.request_reasons(method, params)
        rec = {"hw": id(coil.hw_driver), "cmds": [], "coil": coil.name, "method": method}
        self.stack.append(rec)
        raised = None
        try:
            try:
                result = run()
            except Exception as e:   # noqa  (a refusal; CaseTimeout is a BaseException and passes through)
                raised = e
        finally:
            self.stack.pop()
        self.obs["api_calls"] += 1
        self.clauses["refusal"] += 1
        tok = "%s:%s:%s" % (method, ",".join(sorted(reasons)) or _param_class(params), "R" if raised else "A")
        self.shape.add(tok)
        if len(self.api_log) < 60:
            self.api_log.append([round(self.now(), 4), coil.name, method, _short(params),
                                 type(raised).__name__ if raised else "ok"])
        if reasons:
            self.obs["api_must_refuse"] += 1
            if raised is None:
                self.violation("refusal", _nan_sig(reasons[0], params.get("hold_power")),
                               {"boundary": "request accepted without error", "coil": coil.name, "method": method, "params": _short(params), "reasons": reasons,
                                "limits": lim.as_dict(), "t": self.now(),
                                "driver_cmds": [self._ev_short(self.events[s]) for s in rec["cmds"][:4]]})
            else:
                self.clauses["refusal_no_leak"] += 1
                if rec["cmds"]:
                    self.violation("refusal_no_leak", "refused_but_driver_commanded",
                                   {"coil": coil.name, "method": method, "params": _short(params),
                                    "reasons": reasons, "exc": repr(raised)[:200],
                                    "driver_cmds": [self._ev_short(self.events[s]) for s in rec["cmds"][:4]]})
        if raised is not None:
            self.obs["api_refused"] += 1
            raise raised
        return result

    def _rule_api_call(self, pc, name, a, k, run):
        # signature: (enable_switch, [eos_switch], driver, [delay_ms], pulse_setting, [hold_settings], [eos_settings])
        drv, pulse, hold = None, None, None
        for x in list(a) + list(k.values()):
            fields = getattr(x, "_fields", ())
            if fields == ("driver", "recycle"):
                drv = x
            elif fields == ("power", "duration"):
                pulse = x
            elif fields == ("power",):
                hold = x
        if drv is None or not hasattr(drv.driver, "hw_driver"):
            return run()
        coil = drv.driver
        who = self._caller(3).replace("via_", "rule_via_")
        self.obs[who] = self.obs.get(who, 0) + 1
        lim = Limits(coil)
        with_hold = name in RULES_WITH_HOLD
        params = {"pulse_ms": pulse.duration if pulse else None, "pulse_power": pulse.power if pulse else None,
                  "hold_power": hold.power if hold else None}
        reasons = lim.request_reasons("rule_hold" if with_hold else "rule", params)
        rec = {"hw": id(coil.hw_driver), "cmds": [], "coil": coil.name, "method": name}
        self.stack.append(rec)
        raised = None
        try:
            try:
                result = run()
            except Exception as e:   # noqa
                raised = e
        finally:
            self.stack.pop()
        self.obs["rule_calls"] += 1
        self.clauses["rule_refusal"] += 1
        self.shape.add("rule:%s:%s:%s" % (name[4:], ",".join(sorted(reasons)) or _param_class(params),
                                          "R" if raised else "A"))
        if len(self.api_log) < 60:
            self.api_log.append([round(self.now(), 4), coil.name, name, _short(params),
                                 type(raised).__name__ if raised else "ok"])
        if reasons:
            if raised is None:
                self.violation("rule_refusal", _nan_sig(reasons[0], params.get("hold_power")),
                               {"boundary": "rule request accepted without error", "coil": coil.name, "rule": name, "params": _short(params), "reasons": reasons,
                                "limits": lim.as_dict()})
            elif rec["cmds"]:
                self.violation("rule_refusal", "refused_but_driver_commanded",
                               {"coil": coil.name, "rule": name, "params": _short(params), "reasons": reasons,
                                "exc": repr(raised)[:200]})
        if raised is not None:
            self.obs["rule_refused"] += 1
            raise raised
        return result

    # ------------------------------------------------------------------------------------------
    def _ev_short(self, ev):
        d = {k: ev[k] for k in ("seq", "kind", "pp", "pd", "hp", "hd") if ev.get(k) is not None}
        d["t"] = round(ev["t"], 6)
        d["hw"] = ev["hwname"]
        if "sw_ms" in ev:
            d["sw_ms"] = ev["sw_ms"]
        if "rule" in ev:
            d["rule"] = ev["rule"]
        return _short(d)

    def flush(self):
        """Evaluate the envelope invariant on all commands logged since the last flush."""
        while self._flushed < len(self.events):
            ev = self.events[self._flushed]
            self._flushed += 1
            owner = self.owners.get(ev["hw"])
            if owner is None or ev["kind"] == "disable":
                continue
            if owner[0] == "dout":
                self._check_dout(ev, owner[1])
                continue
            lim = self.limits[ev["hw"]]
            clause = "rule_limits" if ev["kind"] == "rule" else "hw_limits"
            self.clauses[clause] += 1
            for fault, what in lim.command_faults(ev):
                self.violation(clause, _nan_sig(fault, ev.get("hp")),
                               {"boundary": "rule installed on platform" if ev["kind"] == "rule" else
                                "command reached platform driver", "fault": fault, "coil": lim.name, "command": self._ev_short(ev), "limits": lim.as_dict()})

    def _dout_request(self, do, pulse_ms, raised, n0):
        """Request boundary of a driver-type digital output: a negative duration must be refused."""
        self.obs["dout_pulse_requests"] = self.obs.get("dout_pulse_requests", 0) + 1
        v = num(pulse_ms)
        self.shape.add("dout:%s:%s" % ("neg" if (v is not None and v < 0) else "x" if v is None else
                                       "0" if v == 0 else "hw" if v <= 255 else "sw", "R" if raised else "A"))
        if v is not None and v < 0:
            self.clauses["dout_limits"] += 1
            cmds = [e for e in self.events[n0:] if e["hw"] == id(do.hw_driver) and e["kind"] != "disable"]
            if raised is None or cmds:
                self.violation("dout_limits", "digital_output_pulse_unchecked",
                               {"output": do.name, "fault": "negative_pulse_ms", "boundary":
                                "request accepted without error" if raised is None else "refused but driver commanded",
                                "pulse_ms": _short(pulse_ms),
                                "driver_cmds": [self._ev_short(e) for e in cmds[:3]]})

    def _check_dout(self, ev, do):
        """Digital output on a driver: envelope = the DriverConfig it registered with the platform."""
        self.clauses["dout_limits"] += 1
        self.obs["dout_cmds"] += 1
        cfg = getattr(do.hw_driver, "config", None)
        max_ms = getattr(cfg, "max_pulse_ms", None)
        if ev["kind"] == "pulse":
            d = ev["pd"]
            fault = None
            if not is_number(d):
                fault = "non_numeric_pulse_ms"
            elif d < 0:
                fault = "negative_pulse_ms"
            elif max_ms and d > max_ms:
                fault = "pulse_ms_above_max"
            if fault:
                self.violation("dout_limits", "digital_output_pulse_unchecked",
                               {"output": do.name, "fault": fault, "command": self._ev_short(ev),
                                "registered_max_pulse_ms": max_ms})
        elif ev["kind"] == "sw_pulse":
            d = ev["sw_ms"]
            fault = None
            if not is_number(d):
                fault = "non_numeric_pulse_ms"
            elif d < 0:
                fault = "negative_pulse_ms"
            if fault:
                self.violation("dout_limits", "digital_output_pulse_unchecked",
                               {"output": do.name, "fault": fault, "command": self._ev_short(ev)})

    # ------------------------------------------------------------------------------------------
    def pending_deadline(self):
        """Latest virtual time at which some switch-off obligation falls due (None if none open)."""
        latest = None
        for hwid, st in self._scan(None, collect_only=True).items():
            for d in st:
                if d is not None and (latest is None or d > latest):
                    latest = d
        return latest

    def _scan(self, t_end, collect_only=False):
        per = {}
        for ev in self.events:
            per.setdefault(ev["hw"], []).append(ev)
        open_deadlines = {}
        for hwid, evs in per.items():
            owner = self.owners.get(hwid)
            if owner is None:
                continue
            is_dout = owner[0] == "dout"
            if is_dout:
                # driver-type digital output: software-timed pulses only (it may be enabled for ever by design)
                lim = _DoutLimits(owner[1].name)
            else:
                lim = self.limits[hwid]
            dur = lim.max_hold_duration
            sw_clause = "dout_sw_pulse_off" if is_dout else "sw_pulse_off"
            sw_sig = "digital_output_sw_pulse_not_switched_off" if is_dout else "sw_timed_pulse_not_switched_off"
            sw = None          # (deadline, ev)
            hold_since = None  # (t, ev)
            seqs = list(evs)
            if not collect_only:
                seqs.append({"kind": "END", "t": t_end, "seq": -1})
            for ev in seqs:
                t = ev["t"]
                if not collect_only:
                    if sw is not None and t > sw[0] + EPS:
                        self.clauses[sw_clause] += 1
                        self.violation(sw_clause, sw_sig,
                                       {"output" if is_dout else "coil": lim.name,
                                        "commands_since": [self._ev_short(e) for e in evs
                                                           if e["seq"] > sw[1]["seq"]][:4], "switched_on": self._ev_short(sw[1]),
                                        "deadline": round(sw[0], 6), "next_event_at": round(t, 6),
                                        "next_event": ev["kind"]})
                        sw = None
                    if hold_since is not None and dur is not None and t > hold_since[0] + dur + EPS:
                        self.clauses["hold_limit"] += 1
                        sig = "held_beyond_max_hold_duration"
                        if hold_since[1].get("via") == "via_platform_controller":
                            # enable issued by SoftwareEosRepulseManager straight on the platform driver
                            sig = "sw_eos_repulse_hold_ignores_max_hold_duration"
                        self.violation("hold_limit", sig,
                                       {"coil": lim.name, "enabled_by": hold_since[1].get("via"), "held_since": self._ev_short(hold_since[1]),
                                        "max_hold_duration_s": dur, "still_on_at": round(t, 6),
                                        "next_event": ev["kind"]})
                        hold_since = None
                k = ev["kind"]
                if k == "disable":
                    if sw is not None and not collect_only:
                        self.clauses[sw_clause] += 1
                    if hold_since is not None and dur is not None and not collect_only:
                        self.clauses["hold_limit"] += 1
                    sw, hold_since = None, None
                elif k == "sw_pulse":
                    if sw is not None and not collect_only:
                        self.obs["dout_sw_pulse_superseded" if is_dout else "sw_pulse_superseded"] += 1
                    ms = ev["sw_ms"] if is_number(ev["sw_ms"]) else 0
                    sw = (t + max(0.0, ms) / 1000.0, ev)
                elif k == "enable":
                    if sw is not None and not collect_only:
                        self.obs["dout_sw_pulse_superseded" if is_dout else "sw_pulse_superseded"] += 1
                    sw = None
                    if hold_since is None:
                        hold_since = (t, ev)
            if collect_only:
                open_deadlines[hwid] = [sw[0] if sw else None,
                                        (hold_since[0] + dur) if (hold_since and dur is not None) else None]
        return open_deadlines

    def finish(self, t_end):
        self.flush()
        self._scan(t_end)


class _DoutLimits:
    max_hold_duration = None

    def __init__(self, name):
        self.name = name


def _nan_sig(fault, hold_power):
    """A hold that is not allowed but was let through because the hold power is NaN: own mechanism."""
    if fault == "hold_not_allowed" and is_nan(hold_power):
        return "nan_hold_power_passes_hold_checks"
    return sig_of(fault)


def _param_class(params):
    out = []
    for k in sorted(params):
        v = params[k]
        if v is None:
            continue
        n = num(v)
        if n is None:
            c = "x"
        elif n < 0:
            c = "neg"
        elif n == 0:
            c = "0"
        elif isinstance(v, float) and v != int(v):
            c = "frac"
        elif n > 255:
            c = "big"
        else:
            c = "ok"
        out.append(k[:1] + k.split("_")[-1][:2] + "=" + c)
    return "/".join(out) or "default"


def _short(o):
    if isinstance(o, dict):
        return {str(k): _short(v) for k, v in o.items()}
    if isinstance(o, (list, tuple)):
        return [_short(x) for x in o]
    if isinstance(o, float):
        if o != o:
            return "nan"
        if o in (float("inf"), float("-inf")):
            return "inf" if o > 0 else "-inf"
        return o
    if isinstance(o, (int, str, bool)) or o is None:
        return o
    return repr(o)[:80]
