"""C09 — hardware boundary for lights: test doubles that SUBCLASS the real interface classes plus recorders.

Backends (one per light, chosen by the generated config):
  virtual : the real mpf.platforms.virtual.VirtualLight; boundary = VirtualLight.set_fade (hardware fades itself)
  sw      : SwLight(LightPlatformSoftwareFade); boundary = set_brightness (production _fade task does the stepping)
  direct  : DirLight(LightPlatformDirectFade) with max_fade_ms > 0; boundary = set_brightness_and_fade
  batch   : BLight(PlatformBatchLight) on a real PlatformBatchLightSystem; boundary = the system's update_callback
  coil    : the real DriverLight (platform: drivers) on a real coil; boundary = VirtualDriver.enable/disable

Nothing of the production fade stepping / suppression / batching code is replaced: the doubles only implement the
abstract leaf methods and record what arrives there.  Class-level wrappers on set_fade only *record* the call
(time, serial) and tag the asyncio context so that a leaf call can be attributed to the set_fade that caused it.
"""
import contextvars

_ORIGIN = contextvars.ContextVar("c09_origin", default=None)


class Chan:
    """Everything observed on one hardware channel."""

    __slots__ = ["light", "color", "backend", "obj", "serial", "set_fades", "log", "number"]

    def __init__(self, light, color, backend, number):
        self.light = light
        self.color = color
        self.backend = backend
        self.number = number
        self.obj = None
        self.serial = 0
        self.set_fades = []     # (t, serial, start_b, start_t, target_b, target_t)
        self.log = []           # leaf commands: (t, brightness, fade_ms, origin_serial)

    # -- what the hardware shows, derived ONLY from the commands that reached the leaf ----------------------
    def value_at(self, t):
        """Return (brightness at t, still_fading)."""
        if self.backend == "virtual":
            if not self.set_fades:
                return 0.0, False
            _, _, sb, st, tb, tt = self.set_fades[-1]
            if tt > t:
                ratio = (t - st) / (tt - st)
                return sb + (tb - sb) * ratio, True
            return tb, False
        cur = 0.0
        ramp = None     # (t0, b0, t1, b1)
        for (tc, b, fade_ms, _) in self.log:
            if tc > t:
                break
            if ramp is not None:
                cur = _ramp_value(ramp, tc)
            if fade_ms and fade_ms > 0:
                ramp = (tc, cur, tc + fade_ms / 1000.0, b)
            else:
                ramp = None
                cur = b
        if ramp is not None:
            return _ramp_value(ramp, t), t < ramp[2] - 1e-9
        return cur, False


def _ramp_value(ramp, t):
    t0, b0, t1, b1 = ramp
    if t >= t1:
        return b1
    return b0 + (b1 - b0) * ((t - t0) / (t1 - t0))


class Recorder:

    def __init__(self):
        self.chans = {}          # (light, color) -> Chan
        self.by_obj = {}         # id(platform light obj) -> Chan
        self.by_driver = {}      # id(hw_driver) -> Chan
        self.now = lambda: 0.0
        self.batch_systems = []
        self.tx = []             # batch transmissions: [t_start, t_end or None, n_lights]
        self.lost_marks = []     # (t, id(batch light)): dirty marks discarded unprocessed
        self.obs = {"hw_leaf_cmds": 0, "hw_set_fade_calls": 0, "batch_msgs": 0, "batch_msgs_multi": 0,
                    "batch_dirty_marks_discarded": 0, "batch_nonsequential_msgs": 0, "batch_oversize_msgs": 0}
        self._undo = []

    def leaf(self, obj, brightness, fade_ms):
        ch = self.by_obj.get(id(obj))
        if ch is None:
            return
        origin = _ORIGIN.get()
        self.obs["hw_leaf_cmds"] += 1
        ch.log.append((self.now(), float(brightness), fade_ms, origin[1] if origin and origin[0] == id(obj) else None))

    def uninstall(self):
        for system in self.batch_systems:
            try:
                system.stop()
            except Exception:     # noqa
                pass
        for obj, name, val in reversed(self._undo):
            setattr(obj, name, val)
        self._undo = []

    def _patch(self, obj, name, val):
        self._undo.append((obj, name, getattr(obj, name)))
        setattr(obj, name, val)


def install(rec, spec):
    """Patch the virtual platform so that lights get the backend named in `spec`.

    spec: {"lights": {name: {"backend":..., "params": {...}}}, "batch": {"update_hz":, "max_batch":, "latency_ms":}}
    Must be called before the machine boots; rec.now must be set once the loop exists.
    """
    import asyncio
    from mpf.platforms.virtual import VirtualHardwarePlatform, VirtualLight, VirtualDriver
    from mpf.platforms.interfaces.light_platform_interface import (LightPlatformDirectFade,
                                                                   LightPlatformSoftwareFade)
    from mpf.core.platform_batch_light_system import PlatformBatchLight, PlatformBatchLightSystem

    class SwLight(LightPlatformSoftwareFade):
        def set_brightness(self, brightness):
            rec.leaf(self, brightness, 0)

        def get_board_name(self):
            return "c09-sw"

        def is_successor_of(self, other):
            raise AssertionError("not possible")

        def get_successor_number(self):
            raise AssertionError("not possible")

        def __lt__(self, other):
            return self.number < other.number

    class DirLight(LightPlatformDirectFade):
        def __init__(self, number, loop, max_fade_ms):
            super().__init__(number, loop)
            self._max = max_fade_ms

        def get_max_fade_ms(self):
            return self._max

        def set_brightness_and_fade(self, brightness, fade_ms):
            rec.leaf(self, brightness, fade_ms)

        def get_board_name(self):
            return "c09-direct"

        def is_successor_of(self, other):
            raise AssertionError("not possible")

        def get_successor_number(self):
            raise AssertionError("not possible")

        def __lt__(self, other):
            return self.number < other.number

    class BLight(PlatformBatchLight):
        def __init__(self, number, system, max_fade_ms):
            super().__init__(number, system)
            self._max = max_fade_ms

        def get_max_fade_ms(self):
            return self._max

        def get_board_name(self):
            return "c09-batch"

        def is_successor_of(self, other):
            return self.number == other.number + 1

        def get_successor_number(self):
            return self.number + 1

        def __lt__(self, other):
            return self.number < other.number

    bcfg = spec.get("batch") or {}
    state = {"system": None}

    def get_system(machine):
        if state["system"] is None:
            latency = (bcfg.get("latency_ms") or 0) / 1000.0
            max_batch = bcfg.get("max_batch", 12)

            async def update_callback(seq):
                t = rec.now()
                entry = [t, None, len(seq)]
                rec.tx.append(entry)
                rec.obs["batch_msgs"] += 1
                if len(seq) > 1:
                    rec.obs["batch_msgs_multi"] += 1
                if len(seq) > max_batch:
                    rec.obs["batch_oversize_msgs"] += 1
                prev = None
                for light, brightness, fade_ms in seq:
                    if prev is not None and not light.is_successor_of(prev):
                        rec.obs["batch_nonsequential_msgs"] += 1
                    prev = light
                    ch = rec.by_obj.get(id(light))
                    if ch is not None:
                        rec.obs["hw_leaf_cmds"] += 1
                        ch.log.append((t, float(brightness), fade_ms, None))
                if latency:
                    await asyncio.sleep(latency)
                entry[1] = rec.now()

            system = PlatformBatchLightSystem(machine.clock, update_callback, bcfg.get("update_hz", 50), max_batch)
            system.dirty_lights = _tracked_set(rec)     # same container type, only records discarded marks
            system.start()
            state["system"] = system
            rec.batch_systems.append(system)
        return state["system"]

    orig_configure = VirtualHardwarePlatform.configure_light

    def configure_light(self, number, subtype, config, platform_settings):
        lspec = spec["lights"].get(config.name)
        if lspec is None or not (subtype or "").startswith("x_"):
            obj = orig_configure(self, number, subtype, config, platform_settings)
            backend = "virtual"
        else:
            backend = subtype[2:]
            params = lspec.get("params") or {}
            if backend == "sw":
                obj = SwLight("sw-%s" % number, self.machine.clock.loop, int(params.get("interval_ms", 20)))
            elif backend == "direct":
                obj = DirLight("dir-%s" % number, self.machine.clock.loop, int(params.get("max_fade_ms", 100)))
            elif backend == "batch":
                obj = BLight(int(number), get_system(self.machine), int(params.get("max_fade_ms", 0)))
            else:
                raise AssertionError("unknown c09 backend " + backend)
        if lspec is not None:
            ch = Chan(config.name, config.color.name.lower(), backend, number)
            ch.obj = obj
            rec.chans[(ch.light, ch.color)] = ch
            rec.by_obj[id(obj)] = ch
        return obj

    rec._patch(VirtualHardwarePlatform, "configure_light", configure_light)

    # --- recording wrappers (call the production method unchanged) --------------------------------------
    orig_vl_set_fade = VirtualLight.set_fade

    def vl_set_fade(self, start_brightness, start_time, target_brightness, target_time):
        ch = rec.by_obj.get(id(self))
        if ch is not None:
            ch.serial += 1
            rec.obs["hw_set_fade_calls"] += 1
            rec.obs["hw_leaf_cmds"] += 1
            ch.set_fades.append((rec.now(), ch.serial, start_brightness, start_time, target_brightness, target_time))
        return orig_vl_set_fade(self, start_brightness, start_time, target_brightness, target_time)

    rec._patch(VirtualLight, "set_fade", vl_set_fade)

    orig_df_set_fade = LightPlatformDirectFade.set_fade

    def df_set_fade(self, start_brightness, start_time, target_brightness, target_time):
        ch = rec.by_obj.get(id(self))
        if ch is None:
            return orig_df_set_fade(self, start_brightness, start_time, target_brightness, target_time)
        ch.serial += 1
        rec.obs["hw_set_fade_calls"] += 1
        ch.set_fades.append((rec.now(), ch.serial, start_brightness, start_time, target_brightness, target_time))
        # a task created inside inherits a copy of this context: leaf calls made by it carry this serial
        tok = _ORIGIN.set((id(self), ch.serial, False))
        try:
            return orig_df_set_fade(self, start_brightness, start_time, target_brightness, target_time)
        finally:
            _ORIGIN.reset(tok)

    rec._patch(LightPlatformDirectFade, "set_fade", df_set_fade)

    orig_b_set_fade = PlatformBatchLight.set_fade

    def b_set_fade(self, start_brightness, start_time, target_brightness, target_time):
        ch = rec.by_obj.get(id(self))
        if ch is not None:
            ch.serial += 1
            rec.obs["hw_set_fade_calls"] += 1
            ch.set_fades.append((rec.now(), ch.serial, start_brightness, start_time, target_brightness, target_time))
        return orig_b_set_fade(self, start_brightness, start_time, target_brightness, target_time)

    rec._patch(PlatformBatchLight, "set_fade", b_set_fade)

    # --- coils used as lights: observe the hardware driver ------------------------------------------------
    orig_enable = VirtualDriver.enable
    orig_disable = VirtualDriver.disable

    def drv_enable(self, pulse_settings, hold_settings):
        ch = rec.by_driver.get(id(self))
        if ch is not None:
            origin = _ORIGIN.get()
            rec.obs["hw_leaf_cmds"] += 1
            ch.log.append((rec.now(), float(hold_settings.power), 0,
                           origin[1] if origin and origin[0] == id(ch.obj) else None))
        return orig_enable(self, pulse_settings, hold_settings)

    def drv_disable(self):
        ch = rec.by_driver.get(id(self))
        if ch is not None:
            origin = _ORIGIN.get()
            rec.obs["hw_leaf_cmds"] += 1
            ch.log.append((rec.now(), 0.0, 0, origin[1] if origin and origin[0] == id(ch.obj) else None))
        return orig_disable(self)

    rec._patch(VirtualDriver, "enable", drv_enable)
    rec._patch(VirtualDriver, "disable", drv_disable)


def _tracked_set(rec):
    """A SortedSet that behaves identically but records every dirty mark that clear() discards although the mark
    was added after the set was last read (= an update request that nobody will ever process)."""
    from sortedcontainers import SortedSet

    class TrackedSet(SortedSet):
        def __init__(self):
            super().__init__()
            self.seq = 0
            self.added = {}
            self.taken = 0

        def add(self, value):
            self.seq += 1
            self.added[id(value)] = self.seq
            return SortedSet.add(self, value)

        def __iter__(self):
            self.taken = self.seq
            return SortedSet.__iter__(self)

        def clear(self):
            for value in SortedSet.__iter__(self):
                if self.added.get(id(value), 0) > self.taken:
                    rec.lost_marks.append((rec.now(), id(value)))
                    rec.obs["batch_dirty_marks_discarded"] += 1
            return SortedSet.clear(self)

    return TrackedSet()


def register_coil_lights(rec, machine, spec):
    """After boot: lights on platform 'drivers' are real DriverLight objects; map them and their hw drivers."""
    for name, lspec in spec["lights"].items():
        if lspec.get("backend") != "coil":
            continue
        light = machine.lights[name]
        for color, drivers in light.hw_drivers.items():
            for drv in drivers:
                ch = Chan(name, color, "coil", drv.number)
                ch.obj = drv
                rec.chans[(name, color)] = ch
                rec.by_obj[id(drv)] = ch
                rec.by_driver[id(drv.driver.hw_driver)] = ch
