"""C11 helpers: generated game-mode configs with per-player devices, the stimulus alphabet, and the
configured-initial-value table the oracle compares new players / first mode loads against.

Everything here is pure data (no mpf import): gen_* functions depend only on the rng they are given, so that the
case dict is replayable; initial_*() derive the values the documentation promises from that same dict.
"""

PROFILES = {
    "pf2": {"states": [{"name": "unlit"}, {"name": "lit"}], "loop": False},
    "pf3l": {"states": [{"name": "a"}, {"name": "b"}, {"name": "c"}], "loop": True},
    "pf3n": {"states": [{"name": "a"}, {"name": "b"}, {"name": "c"}], "loop": False, "advance_on_hit": False},
    "pf4b": {"states": [{"name": "a"}, {"name": "b"}, {"name": "c"}, {"name": "d"}], "loop": False, "block": True,
             "state_names_to_not_rotate": ["d"], "rotation_pattern": ["R", "L"]},
}

# game-flow events at which no game mode is running: an event_player entry there posts a device stimulus "between
# turns" (legitimate effect: none)
HOOK_TRIGGERS = ["ball_ended", "player_turn_will_end", "player_turn_ending", "player_turn_ended",
                 "player_turn_will_start", "player_turn_starting", "player_turn_started", "ball_will_start"]

PV_VARS = {"score": "int", "v_i": "int", "v_j": "int", "v_f": "float", "v_s": "str",
           "v_new": "int"}


def _tri(rng):
    return rng.choice([None, None, True, False])


def _common_lb(rng, name, cfg, stim):
    """logic_blocks_common keys."""
    cfg["persist_state"] = rng.random() < 0.75
    if rng.random() < 0.5:
        cfg["enable_events"] = "x_%s_en" % name
    stim.append("x_%s_en" % name)
    cfg["disable_events"] = "x_%s_dis" % name
    cfg["reset_events"] = "x_%s_rst" % name
    cfg["restart_events"] = "x_%s_rsta" % name
    stim += ["x_%s_dis" % name, "x_%s_rst" % name, "x_%s_rsta" % name]
    se = _tri(rng)
    if se is not None:
        cfg["start_enabled"] = se
    cfg["reset_on_complete"] = rng.random() < 0.5
    cfg["disable_on_complete"] = rng.random() < 0.5


def gen_mode(rng, prefix, rich):
    """Returns (mode_config_without_mode_section, stimuli, guarded) where guarded are stimuli that must only be
    posted while the mode is active (Counter control events raise without a loaded state: property C18's business)."""
    cfg = {}
    stim = []
    guarded = []
    n = lambda kind, i: "%s%s%d" % (prefix, kind, i)    # noqa: E731

    counters = {}
    for i in range(rng.choice([1, 1, 2, 3] if rich else [0, 1, 1])):
        name = n("c", i)
        c = {"count_events": "x_%s_hit" % name}
        stim += ["x_%s_hit" % name] * 3
        _common_lb(rng, name, c, stim)
        c["direction"] = rng.choice(["up", "up", "down"])
        c["starting_count"] = rng.choice([0, 0, 3, 10])
        c["count_interval"] = rng.choice([1, 1, 2])
        if rng.random() < 0.6:
            d = rng.choice([2, 3, 5])
            c["count_complete_value"] = c["starting_count"] + (d if c["direction"] == "up" else -d)
        if rng.random() < 0.5:
            c["control_events"] = [{"action": "add", "event": "x_%s_add" % name, "value": 2},
                                   {"action": "subtract", "event": "x_%s_sub" % name, "value": 1},
                                   {"action": "jump", "event": "x_%s_jump" % name, "value": 4}]
            guarded += ["x_%s_add" % name, "x_%s_sub" % name, "x_%s_jump" % name]
        counters[name] = c
    if counters:
        cfg["counters"] = counters

    accruals = {}
    for i in range(rng.choice([0, 1, 1] if rich else [0, 0, 1])):
        name = n("a", i)
        k = rng.choice([2, 3])
        a = {"events": ["x_%s_e%d" % (name, j) for j in range(k)]}
        stim += a["events"] * 2
        _common_lb(rng, name, a, stim)
        accruals[name] = a
    if accruals:
        cfg["accruals"] = accruals

    sequences = {}
    for i in range(rng.choice([0, 1, 1] if rich else [0, 0, 1])):
        name = n("q", i)
        k = rng.choice([2, 3])
        s = {"events": ["x_%s_e%d" % (name, j) for j in range(k)]}
        stim += s["events"] * 2
        _common_lb(rng, name, s, stim)
        sequences[name] = s
    if sequences:
        cfg["sequences"] = sequences

    shots = {}
    for i in range(rng.choice([1, 2, 3] if rich else [0, 1, 2])):
        name = n("s", i)
        s = {"hit_events": "x_%s_hit" % name, "profile": rng.choice(sorted(PROFILES)),
             "persist_enable": rng.random() < 0.7,
             "disable_events": "x_%s_dis" % name, "reset_events": "x_%s_rst" % name,
             "restart_events": "x_%s_rsta" % name, "advance_events": "x_%s_adv" % name,
             "control_events": [{"events": ["x_%s_j1" % name], "state": 1, "force": rng.random() < 0.5}]}
        if rng.random() < 0.5:
            s["enable_events"] = "x_%s_en" % name
        se = _tri(rng)
        if se is not None:
            s["start_enabled"] = se
        stim += ["x_%s_hit" % name] * 3 + ["x_%s_%s" % (name, k) for k in ("en", "dis", "rst", "rsta", "adv", "j1")]
        shots[name] = s
    if shots:
        cfg["shots"] = shots
        if rng.random() < (0.75 if len(shots) >= 2 else 0.4):
            g = n("g", 0)
            # all member shots of a group share one profile (the group takes the first shot's profile)
            prof = shots[sorted(shots)[0]]["profile"]
            for s in shots.values():
                s["profile"] = prof
            grp = {"shots": sorted(shots), "rotate_left_events": "x_%s_rl" % g,
                   "rotate_right_events": "x_%s_rr" % g, "rotate_events": "x_%s_rot" % g,
                   "reset_events": "x_%s_rst" % g}
            # groups with and without their own enable/disable/restart events (a group without enable_events must
            # not touch the members' persisted enable flags when its mode starts)
            if rng.random() < 0.4:
                grp["enable_events"] = "x_%s_en" % g
            if rng.random() < 0.6:
                grp["disable_events"] = "x_%s_dis" % g
            if rng.random() < 0.5:
                grp["restart_events"] = "x_%s_rsta" % g
            cfg["shot_groups"] = {g: grp}
            stim += ["x_%s_%s" % (g, k) for k in ("rl", "rr", "rot", "rst", "en", "dis", "rsta")]

    ach = {}
    for i in range(rng.choice([1, 2, 2, 3] if rich else [0, 1, 2])):
        name = n("h", i)
        a = {"start_events": "x_%s_start" % name, "complete_events": "x_%s_comp" % name,
             "disable_events": "x_%s_dis" % name, "stop_events": "x_%s_stop" % name,
             "reset_events": "x_%s_rst" % name, "select_events": "x_%s_sel" % name,
             "unselect_events": "x_%s_unsel" % name,
             "restart_after_stop_possible": rng.random() < 0.5,
             "restart_on_next_ball_when_started": rng.random() < 0.5,
             "enable_on_next_ball_when_enabled": rng.random() < 0.6}
        if rng.random() < 0.6:
            a["enable_events"] = "x_%s_en" % name
        se = _tri(rng)
        if se is not None:
            a["start_enabled"] = se
        stim += ["x_%s_%s" % (name, k) for k in ("en", "start", "start", "comp", "dis", "stop", "rst", "sel", "unsel")]
        ach[name] = a
    if ach:
        cfg["achievements"] = ach
        if rng.random() < (0.7 if len(ach) >= 2 else 0.3):
            # achievement group: its selection pointer is device state that is NOT per player; disable_random keeps the
            # pick deterministic (first selectable member)
            g = n("ag", 0)
            grp = {"achievements": sorted(ach), "start_selected_events": "x_%s_ss" % g,
                   "rotate_right_events": "x_%s_rr" % g, "rotate_left_events": "x_%s_rl" % g,
                   "select_random_achievement_events": "x_%s_sr" % g, "disable_events": "x_%s_dis" % g,
                   "disable_random": True, "auto_select": rng.random() < 0.2,
                   "allow_selection_change_while_disabled": rng.random() < 0.3,
                   "disable_while_achievement_started": rng.random() < 0.5,
                   "enable_while_no_achievement_started": rng.random() < 0.6}
            if rng.random() < 0.35:
                grp["enable_events"] = "x_%s_en" % g
            cfg["achievement_groups"] = {g: grp}
            stim += ["x_%s_%s" % (g, k) for k in ("ss", "ss", "ss", "rr", "rr", "rl", "sr", "dis", "en")]

    timers = {}
    for i in range(rng.choice([0, 1] if rich else [0, 0, 1])):
        name = n("t", i)
        up = rng.random() < 0.6
        t = {"direction": "up" if up else "down", "start_value": 0 if up else 50,
             "tick_interval": rng.choice(["250ms", "500ms", "1s"]), "start_running": rng.random() < 0.6,
             "control_events": [{"action": "start", "event": "x_%s_start" % name},
                                {"action": "stop", "event": "x_%s_stop" % name},
                                {"action": "add", "event": "x_%s_add" % name, "value": 3},
                                {"action": "jump", "event": "x_%s_jump" % name, "value": 7},
                                {"action": "pause", "event": "x_%s_pause" % name, "value": rng.choice([1, 2, 4])},
                                {"action": "pause", "event": "x_%s_pause0" % name, "value": 0}]}
        if up:
            t["end_value"] = 1000
        stim += ["x_%s_%s" % (name, k) for k in ("start", "stop", "add", "jump", "pause", "pause", "pause0")]
        timers[name] = t
    if timers:
        cfg["timers"] = timers

    sms = {}
    for i in range(rng.choice([0, 1] if rich else [0, 0, 1])):
        name = n("m", i)
        sm = {"persist_state": rng.random() < 0.75, "starting_state": "start",
              "states": {"start": {"label": "s"}, "one": {"label": "1"}, "two": {"label": "2"}},
              "transitions": [{"source": ["start"], "target": "one", "events": ["x_%s_go" % name]},
                              {"source": ["one"], "target": "two", "events": ["x_%s_go" % name]},
                              {"source": ["two", "one"], "target": "start", "events": ["x_%s_back" % name]}]}
        stim += ["x_%s_go" % name] * 2 + ["x_%s_back" % name]
        sms[name] = sm
    if sms:
        cfg["state_machines"] = sms

    xbs = {}
    for i in range(rng.choice([0, 0, 1] if rich else [0, 0, 0, 1])):
        name = n("x", i)
        xbs[name] = {"award_events": "x_%s_award" % name, "light_events": "x_%s_light" % name,
                     "max_per_game": rng.choice([1, 1, 2])}
        if rng.random() < 0.5:
            xbs[name]["group"] = "ebg"
        stim += ["x_%s_award" % name, "x_%s_light" % name]
    if xbs:
        cfg["extra_balls"] = xbs

    # model-free scoring of the mode itself (current player only; no explicit player targets)
    vp = {"x_%svp0" % prefix: {"%sfree_i" % prefix: {"int": rng.choice([1, 10, 250]), "action": "add"}},
          "x_%svp1" % prefix: {"%sfree_s" % prefix: {"string": rng.choice(["red", "blue"]), "action": "set"},
                               "%sfree_i" % prefix: {"int": 7, "action": "set"}}}
    cfg["variable_player"] = vp
    stim += ["x_%svp0" % prefix] * 2 + ["x_%svp1" % prefix]
    return cfg, stim, guarded


def gen_pv_table(rng):
    """Modelled variable_player entries of the always-running base mode: event -> {var: entry}."""
    table = {}
    table["x_pv_score"] = {"score": {"int": rng.choice([10, 100, 1000, 12345]), "action": "add"}}
    table["x_pv_score2"] = {"score": {"int": rng.choice([5, -50, 777]), "action": "add"},
                            "v_i": {"int": 1, "action": "add"}}
    table["x_pv_set_i"] = {"v_i": {"int": rng.choice([0, 3, 42]), "action": "set"}}
    table["x_pv_j"] = {"v_j": {"int": rng.choice([1, 2, 9]), "action": "add"}}
    table["x_pv_f"] = {"v_f": {"float": rng.choice([0.5, 1.25, -0.25]), "action": "add"}}
    table["x_pv_s"] = {"v_s": {"string": rng.choice(["alpha", "beta", "gamma"]), "action": "set"}}
    table["x_pv_s2"] = {"v_s": {"string": rng.choice(["delta", "alpha"]), "action": "set"}}
    table["x_pv_new"] = {"v_new": {"int": rng.choice([1, 4]), "action": "add"}}
    # explicit targets: written to a fixed player, whoever is up
    for tgt in (1, 2, 3):
        table["x_pv_t%d" % tgt] = {"score": {"int": rng.choice([3, 30, 300]), "action": "add", "player": tgt},
                                   "v_j": {"int": rng.choice([5, 6]), "action": "set", "player": tgt}}
    table["x_pv_ts2"] = {"v_s": {"string": "tgt", "action": "set", "player": 2}}
    return table


def gen_case(rng, tier, index):
    rich = rng.random() < 0.6
    base_cfg, base_stim, base_guard = gen_mode(rng, "b_", rich)
    m2_cfg, m2_stim, m2_guard = gen_mode(rng, "m_", rng.random() < 0.5)
    pv = gen_pv_table(rng)
    base_cfg["variable_player"].update(pv)
    base_cfg["mode"] = {"start_events": "ball_starting", "priority": 100}
    m2_cfg["mode"] = {"start_events": "x_m2_go, mode_base_started" if rng.random() < 0.2 else "x_m2_go",
                      "stop_events": "x_m2_halt", "priority": rng.choice([50, 200]),
                      "restart_on_next_ball": rng.random() < 0.5}
    player_vars = {}
    if rng.random() < 0.7:
        player_vars["v_i"] = {"initial_value": rng.choice([0, 7]), "value_type": "int"}
    if rng.random() < 0.5:
        player_vars["v_s"] = {"initial_value": rng.choice(["init", "zz"]), "value_type": "str"}
    if rng.random() < 0.5:
        player_vars["v_f"] = {"initial_value": 1.5, "value_type": "float"}
    hooks = []
    for _ in range(rng.choice([0, 1, 1, 2, 3])):
        hooks.append([rng.choice(HOOK_TRIGGERS), rng.choice(base_stim + m2_stim)])
    ebg = {"award_events": "x_ebg_award", "light_events": "x_ebg_light", "award_lit_events": "x_ebg_award_lit",
           "max_per_game": rng.choice([None, 1, 2]), "max_per_ball": rng.choice([None, 1]),
           "max_lit": rng.choice([None, 1]), "lit_memory": rng.random() < 0.6}
    ebg = {k: v for k, v in ebg.items() if v is not None}
    base_stim += ["x_ebg_award_lit"]
    cfg = {"balls": rng.choice([1, 2, 3, 3]), "max_players": rng.choice([2, 3, 4, 4]), "player_vars": player_vars,
           "base": base_cfg, "m2": m2_cfg, "pv": sorted(pv), "hooks": hooks, "ebg": ebg,
           "guarded": {"base": base_guard, "m2": m2_guard, "ebg": ["x_ebg_light"]}}

    # held mode stops ("outro"): the mode_<name>_stopping queue event is held for some virtual seconds by a
    # queue_relay_player + delayed event_player entry.  Ball end has to wait for a mode whose stop is in progress.
    # Durations are x.003 s while all operations happen at multiples of 5 ms: a hold never runs out at the very
    # instant of an operation (exact-instant coincidence: a start request in the loop iteration in which the
    # ball_ending queue completes is neither clearly this ball's nor the next one's).
    holds = {}
    hk = rng.random()
    if hk < 0.35:
        holds["m2"] = rng.choice([0.503, 1.003, 2.003, 3.003, 5.003])
    if hk < 0.08 or hk > 0.88:
        holds["base"] = rng.choice([0.503, 1.003, 3.003])
        base_cfg["mode"]["stop_events"] = "x_base_halt"
    cfg["holds"] = holds

    # read-only probes: names of device variables of both modes (loaded or not for that player), modelled variables,
    # and a name nobody ever writes.  Reading must never change any player's variable set.
    read_names = ["achievements", "extra_balls", "zz_never_written"] + sorted(PV_VARS)
    for mode in ("base", "m2"):
        mc_ = cfg[mode]
        for nm in mc_.get("counters", {}):
            read_names.append(nm + "_state")
        for nm in mc_.get("accruals", {}):
            read_names.append(nm + "_state")
        for nm in mc_.get("sequences", {}):
            read_names.append(nm + "_state")
        for nm in mc_.get("shots", {}):
            read_names += ["shot_" + nm, "shot_%s_enabled" % nm, "shot_%s_enabled" % nm]
        for nm in mc_.get("state_machines", {}):
            read_names.append("state_machine_" + nm)
        for nm in mc_.get("timers", {}):
            read_names.append("%s_%s_tick" % (mode, nm))
        for nm in mc_.get("extra_balls", {}):
            read_names.append("extra_ball_%s_num_awarded" % nm)
    simple = [x for x in read_names if not x.endswith("_state") and x != "achievements"]
    probes = []
    for i in range(3):
        who = rng.choice(["current_player", "players[0]", "players[1]", "players[1]", "players[2]", "players[3]"])
        probes.append(["x_probe_%d" % i, "%s.%s==1" % (who, rng.choice(simple))])
    cfg["probes"] = probes

    def read_op():
        if rng.random() < 0.3:
            return ["probe", rng.randrange(len(probes))]
        return ["read", rng.choice(["cur", 0, 1, 1, 2, 2, 3]), rng.choice(read_names),
                rng.choice(["item", "item", "attr", "isvar"])]

    def held_stop_pattern(which):
        """stop requested -> ball drains within the hold -> stimuli (for whoever is up then) -> hold runs out."""
        stim = m2_stim if which == "m2" else base_stim
        seq = []
        if which == "m2":
            seq.append(["ev", "x_m2_go"])
        seq += [["ev", rng.choice(stim)] for _ in range(rng.randint(1, 4))]
        seq.append(["ev", "x_m2_halt" if which == "m2" else "x_base_halt"])
        seq += [["ev", rng.choice(stim)] for _ in range(rng.randint(0, 2))]
        seq.append(["drain"])
        seq += [["ev", rng.choice(stim if rng.random() < 0.8 else base_stim + m2_stim)] for _ in range(rng.randint(3, 8))]
        seq.append(["adv", round(holds[which] + 0.497, 3)])
        return seq

    pv_events = sorted(pv)
    n_players = rng.choice([1, 2, 2, 3, 3, 4])
    ops = [["start_game"]]
    pending_adds = n_players - 1
    n_ops = rng.randint(60, 140) if tier == "quick" else rng.randint(80, 300)
    xb_left = 3
    for i in range(n_ops):
        k = rng.random()
        if pending_adds and rng.random() < 0.4:
            ops.append(["add_player"])
            pending_adds -= 1
            continue
        if holds and not pending_adds and rng.random() < 0.035:
            ops += held_stop_pattern(rng.choice(sorted(holds)))
            continue
        if rng.random() < 0.07:
            ops.append(read_op())
            continue
        if k < 0.13:
            ops.append(["drain"])
        elif k < 0.14:
            ops.append(["add_player"])
        elif k < 0.165:
            ops.append(["adv", rng.choice([0.25, 0.5, 1.0, 2.0])])
        elif k < 0.171:
            ops.append(["end_game"])
        elif k < 0.185:
            ops.append(["start_game"])
            if rng.random() < 0.7:
                ops += [["add_player"]] * rng.choice([1, 1, 2, 3])
        elif k < 0.275:
            ops.append(["ev", rng.choice(["x_m2_go", "x_m2_go", "x_m2_go", "x_m2_halt"])])
        elif k < 0.42:
            if xb_left and rng.random() < 0.04:
                xb_left -= 1
                ops.append(["ev", "x_ebg_award"])
            else:
                ops.append(["ev", rng.choice(pv_events)])
        elif k < 0.46:
            ops.append(["ev", rng.choice(base_guard + m2_guard + ["x_ebg_light"])])
        else:
            ops.append(["ev", rng.choice(base_stim if rng.random() < 0.45 else m2_stim)])
    return {"cfg": cfg, "ops": ops}


# ---------------------------------------------------------------------------------------------------------
def machine_config(cfg):
    mc = {"modes": ["base", "m2"],
          "game": {"balls_per_game": cfg["balls"], "max_players": cfg["max_players"]},
          "shot_profiles": PROFILES, "extra_ball_groups": {"ebg": cfg["ebg"]}}
    if cfg["player_vars"]:
        mc["player_vars"] = cfg["player_vars"]
    ep = {}
    for trig, ev in cfg.get("hooks", []):
        ep.setdefault(trig, [])
        if ev not in ep[trig]:
            ep[trig].append(ev)
    for ev, expr in cfg.get("probes", []):
        ep["%s{%s}" % (ev, expr)] = ["x_probe_out"]     # conditional entry: evaluating it reads a player variable
    qr = {}
    for which, secs in cfg.get("holds", {}).items():
        qr["mode_%s_stopping" % which] = {"post": "x_%s_outro_start" % which, "wait_for": "x_%s_outro_done" % which}
        ep["x_%s_outro_start" % which] = ["x_%s_outro_done|%dms" % (which, int(secs * 1000))]
    if qr:
        mc["queue_relay_player"] = qr
    if ep:
        mc["event_player"] = ep
    return mc


def _e0(dcfg):
    """Documented default enable state: start_enabled if given, else enabled unless enable_events are configured."""
    if dcfg.get("start_enabled") is not None:
        return bool(dcfg["start_enabled"])
    return not dcfg.get("enable_events")


def devices(cfg):
    """Flat descriptor list of the per-player devices of both modes."""
    out = []
    for mode in ("base", "m2"):
        mc = cfg[mode]
        for name, d in mc.get("counters", {}).items():
            out.append({"mode": mode, "kind": "counter", "coll": "counters", "name": name, "persist": d["persist_state"],
                        "var": name + "_state", "e0": _e0(d), "v0": d["starting_count"]})
        for name, d in mc.get("accruals", {}).items():
            out.append({"mode": mode, "kind": "accrual", "coll": "accruals", "name": name, "persist": d["persist_state"],
                        "var": name + "_state", "e0": _e0(d), "v0": [False] * len(d["events"])})
        for name, d in mc.get("sequences", {}).items():
            out.append({"mode": mode, "kind": "sequence", "coll": "sequences", "name": name,
                        "persist": d["persist_state"], "var": name + "_state", "e0": _e0(d), "v0": 0})
        for name, d in mc.get("shots", {}).items():
            out.append({"mode": mode, "kind": "shot", "coll": "shots", "name": name, "persist": d["persist_enable"],
                        "var": "shot_" + name, "evar": "shot_%s_enabled" % name, "e0": _e0(d), "v0": 0})
        for name, d in mc.get("achievements", {}).items():
            if d.get("start_enabled") is True:
                s0 = "enabled"
            elif d.get("start_enabled") is False:
                s0 = "disabled"
            else:
                s0 = "disabled" if d.get("enable_events") else "enabled"
            auto = any(name in g["achievements"] and g.get("auto_select")
                       for g in mc.get("achievement_groups", {}).values())
            out.append({"mode": mode, "kind": "achievement", "coll": "achievements", "name": name, "persist": True,
                        "var": "achievements", "s0": s0, "auto_selected": auto,
                        "keep_started": d["restart_on_next_ball_when_started"],
                        "keep_enabled": d["enable_on_next_ball_when_enabled"]})
        for name, d in mc.get("achievement_groups", {}).items():
            out.append({"mode": mode, "kind": "agroup", "coll": "achievement_groups", "name": name, "persist": False,
                        "var": "<none:%s>" % name, "members": list(d["achievements"])})
        for name, d in mc.get("extra_balls", {}).items():
            out.append({"mode": mode, "kind": "xb", "coll": "extra_balls", "name": name, "persist": True,
                        "var": "extra_ball_%s_num_awarded" % name, "v0": 0})
        for name, d in mc.get("timers", {}).items():
            out.append({"mode": mode, "kind": "timer", "coll": "timers", "name": name, "persist": False,
                        "var": "%s_%s_tick" % (mode, name), "v0": d["start_value"]})
        for name, d in mc.get("state_machines", {}).items():
            out.append({"mode": mode, "kind": "sm", "coll": "state_machines", "name": name,
                        "persist": d["persist_state"], "var": "state_machine_" + name, "v0": d["starting_state"]})
    return out


def initial_player_vars(cfg):
    out = {}
    for name, e in cfg["player_vars"].items():
        v = e["initial_value"]
        t = e["value_type"]
        out[name] = int(v) if t == "int" else float(v) if t == "float" else str(v)
    out["score"] = 0
    return out
