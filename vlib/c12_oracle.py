"""C12 oracle: independent type table, reference spec merge and exact time reference.

Nothing in here calls the validator under test.  The only mpf pieces consulted are the *classes* used for
`isinstance` (template classes, RuntimeToken) and the machine's device collections for `machine(...)` look-ups.
"""
import math
import re
from fractions import Fraction

MISSING = "<<missing>>"          # key not provided: the spec default applies
UNKNOWN = "<<unknown>>"          # element of a container whose input element cannot be paired


def is_noneish(v):
    return v is None or (isinstance(v, str) and v.lower() == "none")


def contains_noneish(v, depth=0):
    """True if a None-like scalar occurs anywhere inside v (list splitting turns 'a, none' into ['a', None])."""
    if v is None:
        return True
    if isinstance(v, str):
        return "none" in v.lower()
    if depth > 6:
        return True
    if isinstance(v, (list, tuple, set)):
        return any(contains_noneish(x, depth + 1) for x in v)
    if isinstance(v, dict):
        return any(contains_noneish(k, depth + 1) or contains_noneish(x, depth + 1) for k, x in v.items())
    return False


# ---------------------------------------------------------------------------------------------
# exact reference for time strings
_NUM_RE = re.compile(r"^[+-]?(?:[0-9]+(?:\.[0-9]*)?|\.[0-9]+)(?:[eE][+-]?[0-9]+)?$")
_UNITS_MS = (("MSEC", 1), ("SEC", 1000), ("MS", 1), ("D", 86400000), ("H", 3600000), ("M", 60000), ("S", 1000))


def ref_time_ms(value, bare_unit_ms):
    """Exact value (Fraction, in ms) a time input denotes, with its unit suffix, or (None, None) when this
    reference does not cover the input (then nothing is demanded).

    bare_unit_ms: unit of a number without suffix (1 for string_to_ms, 1000 for string_to_secs).
    """
    if isinstance(value, bool):
        return None, None
    if isinstance(value, (int, float)):
        if isinstance(value, float) and not math.isfinite(value):
            return None, None
        return Fraction(value) * bare_unit_ms, "bare"
    if not isinstance(value, str):
        return None, None
    s = value.upper()
    if s != s.strip():
        return None, None          # statement is silent about surrounding blanks
    for suffix, mult in _UNITS_MS:
        if s.endswith(suffix):
            num = s[:-len(suffix)]
            if num != num.strip():
                num = num.strip()
            if not _NUM_RE.match(num):
                return None, None
            return Fraction(num) * mult, suffix
    if not _NUM_RE.match(s):
        return None, None
    if "E" in s:
        return None, None          # "1e3" without unit: letters present, statement silent
    return Fraction(s) * bare_unit_ms, "bare"


def time_close(got_ms, exact_ms):
    """1 ms absolute (integer-ms API truncation, DESIGN §3) plus float relative error."""
    try:
        got = Fraction(got_ms)
    except (ValueError, OverflowError, TypeError):
        return False
    return abs(got - exact_ms) <= 1 + abs(exact_ms) * Fraction(1, 10 ** 9)


# ---------------------------------------------------------------------------------------------
def split_validator(validator):
    if "(" in validator and validator.endswith(")"):
        name, param = validator.split("(", 1)
        return name, param[:-1]
    return validator, None


def parse_default(default):
    """Model of the spec's default column: 'None' (any case) is None, empty means required."""
    if default.lower() == "none":
        return None, False
    if not default:
        return None, True
    return default, False


class RefSpec:
    """Reference copy of the spec (deep, private) + the documented merge of a spec with its base specs."""

    def __init__(self, spec):
        import copy
        self.spec = copy.deepcopy(spec)

    def lookup(self, path):
        cur = self.spec
        for part in path.split(":"):
            cur = cur[part]
        return cur

    def merged(self, config_spec, base_spec=None):
        """config_spec keys win over base specs; earlier base specs win over later ones."""
        lst = [config_spec]
        if base_spec:
            if isinstance(base_spec, (tuple, list)):
                lst.extend(base_spec)
            else:
                lst.append(base_spec)
        out = {}
        for el in reversed(lst):
            out.update(self.lookup(el))
        return out


class Oracle:
    """Decides whether `out` is an acceptable result for validating `inp` against a spec entry/section."""

    def __init__(self, machine, refspec):
        from mpf.core import placeholder_manager as pm
        from mpf.core.config_validator import RuntimeToken
        self.machine = machine
        self.ref = refspec
        self.pm = pm
        self.RuntimeToken = RuntimeToken
        self.evals = {"type": 0, "range": 0, "enum": 0, "complete": 0, "unknown_key": 0, "dropped_key": 0,
                      "time_validator": 0, "machine": 0, "default": 0, "list_norm": 0}
        self.viol = []

    # -- bookkeeping ---------------------------------------------------------------------
    def bad(self, clause, sig, path, **detail):
        detail["path"] = path
        self.viol.append({"clause": clause, "sig": sig, "detail": detail})

    # -- section level -------------------------------------------------------------------
    def section(self, spec, inp, out, path, add_missing=True, depth=0):
        """spec: merged reference spec of the section; inp: deep copy of the source before the call."""
        if not isinstance(out, dict):
            self.evals["type"] += 1
            self.bad("type", "C12:section_result_not_dict", path, out=repr(out)[:200])
            return
        if not isinstance(inp, dict):
            # a non-dict source must be rejected
            self.evals["type"] += 1
            self.bad("type", "C12:non_dict_source_accepted", path, inp=repr(inp)[:200])
            return
        allow_others = "__allow_others__" in spec
        for k, entry in spec.items():
            if entry == "ignore" or k[:1] == "_":
                continue
            provided = k in inp
            if not provided:
                if not add_missing:
                    continue          # nothing is demanded about a key that was neither given nor requested
                self.evals["complete"] += 1
                if k not in out:
                    self.bad("complete", "C12:missing_spec_key", path, key=k)
                    continue
            elif k not in out:
                continue              # reported by the dropped-key scan below
            if isinstance(entry, dict):
                # nested spec: list of validated sub-sections
                self.evals["type"] += 1
                if type(out[k]) is not list:
                    self.bad("type", "C12:ill_typed_nested_section", path, key=k, out=repr(out[k])[:200])
                    continue
                if provided and isinstance(inp[k], list) and len(inp[k]) == len(out[k]) and depth < 4:
                    for i, (si, so) in enumerate(zip(inp[k], out[k])):
                        self.section(entry, si, so, "%s:%s[%d]" % (path, k, i), True, depth + 1)
                continue
            self.item(entry, inp[k] if provided else MISSING, out[k], "%s:%s" % (path, k), depth)
        for k in out:
            if k in spec:
                continue
            self.evals["unknown_key"] += 1
            if allow_others:
                continue
            if isinstance(k, str) and k[:1] == "_":
                continue          # internal keys are exempt by convention
            self.bad("unknown_key", "C12:unknown_key_accepted", path, key=repr(k))
        for k in inp:
            self.evals["dropped_key"] += 1
            if k not in out:
                self.bad("dropped_key", "C12:provided_key_dropped", path, key=repr(k))

    def typed_section(self, spec, out, path):
        """Type-only judgement of an already validated settings dict whose input is not known (config player
        entries: express/list forms are expanded by the player before validation).  Only keys of the spec are
        looked at; None is accepted everywhere; subconfigs/nested sections are not descended into."""
        n = 0
        for k, entry in spec.items():
            if entry == "ignore" or k[:1] == "_" or isinstance(entry, dict) or k not in out:
                continue
            n += 1
            self.item(entry, UNKNOWN, out[k], "%s:%s" % (path, k), 9, none_always_ok=True)
        return n

    # -- one spec entry ------------------------------------------------------------------
    def item(self, entry, inp, out, path, depth=0, none_always_ok=False):
        """none_always_ok: type-only judgement of a value whose input is not known (inp is UNKNOWN)."""
        item_type, validation, default = entry
        if inp is MISSING:
            self.evals["default"] += 1
            dflt, required = parse_default(default)
            if required:
                self.evals["type"] += 1
                self.bad("type", "C12:required_key_defaulted", path, out=repr(out)[:200])
                return
            inp = dflt
        if item_type == "single":
            self.val(validation, inp, out, path, depth, none_always_ok)
        elif item_type == "list":
            self.evals["type"] += 1
            if type(out) is not list:
                self.bad("type", "C12:ill_typed_list", path, inp=repr(inp)[:200], out=repr(out)[:200])
                return
            self.container_norm("list", inp, out, path)
            none_ok = none_always_ok or contains_noneish(inp)
            src = None
            if isinstance(inp, list) and len(inp) == len(out):
                src = inp
            elif isinstance(inp, (bool, int, float)) and len(out) == 1:
                src = [inp]          # a scalar is a one-element list
            for i, e in enumerate(out):
                self.val(validation, src[i] if src is not None else UNKNOWN, e, "%s[%d]" % (path, i), depth, none_ok)
        elif item_type == "set":
            self.evals["type"] += 1
            if type(out) is not set:
                self.bad("type", "C12:ill_typed_set", path, inp=repr(inp)[:200], out=repr(out)[:200])
                return
            self.container_norm("set", inp, out, path)
            none_ok = none_always_ok or contains_noneish(inp)
            for e in out:
                self.val(validation, UNKNOWN, e, path + "{}", depth, none_ok)
        elif item_type in ("dict", "event_handler"):
            self.dict_of(validation, inp, out, path, depth, none_always_ok)
        else:
            self.evals["type"] += 1
            self.bad("type", "C12:unknown_item_type_accepted", path, item_type=item_type)

    def container_norm(self, kind, inp, out, path):
        """A provided value must not vanish while a list/set is normalised: a scalar (also a falsy one: 0, 0.0,
        False) is a one-element container, n list elements / n comma separated parts stay n elements (set: 1..n),
        a non-empty container of another kind must not come back empty.  Nothing is demanded for None, '' (both mean
        "no elements"), 'none'-like strings, strings with '{' (event templates are split by a pattern) and EMPTY
        dicts/tuples (nothing in them to lose)."""
        if inp is UNKNOWN or inp is MISSING or inp is None:
            return
        n_out = len(out)
        scalar = False
        if isinstance(inp, str):
            if inp == "" or "{" in inp or is_noneish(inp):
                return
            n = len(inp.split(","))
        elif isinstance(inp, (bool, int, float)):
            n, scalar = 1, True
        elif isinstance(inp, list):
            n = len(inp)
        elif isinstance(inp, (dict, tuple, set, frozenset)):
            if len(inp) == 0:
                return
            n = None
        else:
            return
        self.evals["list_norm"] += 1
        if n is None:
            ok = n_out >= 1
        elif kind == "set":
            ok = (1 <= n_out <= n) if n >= 1 else n_out == 0
        else:
            ok = n_out == n
        if not ok:
            vanished = n_out == 0 or scalar
            self.bad("list_norm", "C12:list_provided_value_dropped" if vanished else "C12:list_length_changed", path,
                     kind=kind, inp=repr(inp)[:200], out=repr(out)[:200], expected_elements=n)

    def dict_of(self, validation, inp, out, path, depth, none_always_ok=False):
        self.evals["type"] += 1
        if not isinstance(out, dict):
            self.bad("type", "C12:ill_typed_dict", path, inp=repr(inp)[:200], out=repr(out)[:200])
            return
        if ":" not in validation:
            return
        kv, vv = validation.split(":", 1)
        none_ok = none_always_ok or contains_noneish(inp)
        # values are paired with their input only when no two input keys were normalised onto one output key
        pairable = isinstance(inp, dict) and len(inp) == len(out)
        for k, v in out.items():
            self.val(kv, UNKNOWN, k, path + "<key>", depth, none_ok)
            src = UNKNOWN
            if pairable:
                try:
                    if k in inp:
                        src = inp[k]
                except TypeError:
                    pass
            self.val(vv, src, v, "%s[%r]" % (path, k), depth, none_ok)

    # -- one value against one validator ---------------------------------------------------
    def val(self, validator, inp, out, path, depth=0, none_ok=False):
        name, param = split_validator(validator)
        unknown = inp is UNKNOWN
        self.evals["type"] += 1

        def ill(why=""):
            self.bad("type", "C12:ill_typed_" + name, path, validator=validator,
                     inp=None if unknown else repr(inp)[:200], out=repr(out)[:200], out_type=type(out).__name__,
                     why=why)

        # --- tokens ---------------------------------------------------------------------
        if name.endswith("_or_token"):
            base = name[:-len("_or_token")]
            if isinstance(out, self.RuntimeToken):
                if unknown:
                    return
                if isinstance(inp, str) and inp.startswith("(") and inp.endswith(")") and out.token == inp[1:-1]:
                    return
                return ill("runtime token for an input that is not a (token)")
            return self.val(base + ("(%s)" % param if param is not None else ""), inp, out, path, depth, none_ok)

        # --- None -----------------------------------------------------------------------
        if out is None:
            if unknown:
                if none_ok or name == "kivycolor":
                    return
                return ill("None element although no None-like input element")
            if is_noneish(inp):
                if name == "enum" and "none" not in param.lower().split(","):
                    self.evals["enum"] += 1
                    self.bad("enum", "C12:enum_not_restricted", path, validator=validator, inp=repr(inp), out=None)
                return
            if name == "kivycolor" and not inp:
                return          # documented: empty colour is "no colour"
            return ill("None for a non-None input")

        if name in ("str", "event_posted", "event_handler"):
            if type(out) is not str:
                return ill()
            return
        if name == "lstr":
            if type(out) is not str or out != out.lower():
                return ill()
            return
        if name in ("int", "float", "num"):
            if name == "int" and type(out) is not int:
                return ill()
            if name == "float" and type(out) is not float:
                return ill()
            if name == "num" and not isinstance(out, (int, float)):
                return ill()
            if param and param.count(",") == 1:
                self.evals["range"] += 1
                lo, hi = param.split(",")
                lo_ok = lo.strip() == "NONE" or out >= float(lo)
                hi_ok = hi.strip() == "NONE" or out <= float(hi)
                if not (lo_ok and hi_ok):
                    nan = isinstance(out, float) and out != out
                    self.bad("range", "C12:nan_passes_range" if nan else "C12:out_of_range", path,
                             validator=validator, inp=None if unknown else repr(inp)[:200], out=repr(out))
            return
        if name in ("bool", "boolean"):
            if type(out) is not bool:
                return ill()
            return
        if name == "bool_int":
            if type(out) is not int or out not in (0, 1):
                return ill()
            return
        if name in ("ms", "secs"):
            if name == "ms" and type(out) is not int:
                return ill()
            if name == "secs" and type(out) is not float:
                return ill()
            if not unknown:
                self.time_relation(name, inp, out, path, "time_validator")
            return
        if name == "list":
            if not isinstance(out, list):
                return ill()
            if not unknown:
                self.container_norm("list", inp, out, path)
            return
        if name == "int_from_hex":
            if type(out) is not int:
                return ill()
            return
        if name == "dict":
            if not isinstance(out, dict):
                return ill()
            if param:
                self.dict_of(param, inp, out, path, depth, none_ok)
            return
        if name == "kivycolor":
            if isinstance(out, str):
                if out.startswith("(") and out.endswith(")"):
                    return
                return ill("string that is not a (token)")
            if not isinstance(out, list) or not all(type(x) in (int, float) for x in out):
                return ill()
            return
        if name == "color":
            if isinstance(out, (tuple, list)) and len(out) == 3 and all(type(x) is int for x in out):
                return
            return ill()
        if name == "pow2":
            # the representation is passed through (test_Config pins '128' -> '128'); the VALUE must be an exact
            # positive power of two
            try:
                if isinstance(out, str):
                    n = int(out)
                elif isinstance(out, float):
                    n = int(out) if out == int(out) else None
                elif isinstance(out, int):
                    n = int(out)
                else:
                    return ill()
            except (ValueError, OverflowError):
                n = None
            if n is None or n <= 0 or (n & (n - 1)) != 0:
                self.bad("type", "C12:pow2_not_power_of_two", path, validator=validator,
                         inp=None if unknown else repr(inp)[:200], out=repr(out)[:200])
            return
        if name == "gain":
            if type(out) is not float:
                return ill()
            return
        if name == "enum":
            self.evals["enum"] += 1
            values = param.lower().split(",")
            if type(out) is not str or out not in values:
                self.bad("enum", "C12:enum_not_restricted", path, validator=validator,
                         inp=None if unknown else repr(inp)[:200], out=repr(out)[:200])
            return
        if name == "machine":
            self.evals["machine"] += 1
            coll = getattr(self.machine, param, None)
            ok = False
            if coll is not None:
                try:
                    ok = any(out is x for x in coll.values())
                    if ok and not unknown and isinstance(inp, str) and inp in coll:
                        ok = coll[inp] is out
                except Exception:    # noqa
                    ok = False
            if not ok:
                self.bad("machine", "C12:machine_wrong_object", path, validator=validator,
                         inp=None if unknown else repr(inp)[:200], out=repr(out)[:200])
            return
        if name == "subconfig":
            if not isinstance(out, dict):
                return ill()
            if is_noneish(inp) and not unknown:
                return
            if unknown or depth > 4:
                return
            parts = param.split(",")
            try:
                spec = self.ref.merged(parts[0], tuple(parts[1:]) if len(parts) > 1 else None)
            except KeyError:
                return
            self.section(spec, inp, out, path, True, depth + 1)
            return
        if name.startswith("template_"):
            pm = self.pm
            kind = name[len("template_"):]
            native = {"int": (int,), "ms": (int,), "float": (float,), "secs": (float,), "bool": (bool,),
                      "str": (str,)}.get(kind)
            cls = {"int": pm.IntTemplate, "ms": pm.IntTemplate, "float": pm.FloatTemplate,
                   "secs": pm.FloatTemplate, "bool": pm.BoolTemplate,
                   "str": (pm.TextTemplate, pm.StringTemplate)}[kind]
            if isinstance(out, pm.NativeTypeTemplate):
                if native is None or type(out.value) not in native:
                    return ill("native template holds %s" % type(out.value).__name__)
                if kind in ("ms", "secs") and not unknown:
                    self.time_relation(kind, inp, out.value, path, "time_validator")
                return
            if not isinstance(out, cls):
                return ill()
            return
        # a validator this oracle does not know: no claim
        self.evals["type"] -= 1

    def time_relation(self, kind, inp, out, path, clause):
        exact, suffix = ref_time_ms(inp, 1 if kind == "ms" else 1000)
        if exact is None:
            return
        self.evals[clause] = self.evals.get(clause, 0) + 1
        if isinstance(out, float) and not math.isfinite(out):
            ok = False
        else:
            ok = time_close(Fraction(out) * (1 if kind == "ms" else 1000), exact)
        if not ok:
            self.bad(clause, "C12:time_wrong_%s" % suffix, path, kind=kind, inp=repr(inp), out=repr(out),
                     exact_ms=str(exact))
