"""C14 helpers: hostile serial ports + independent board simulators / frame codecs for FAST, OPP and PKONE.

Nothing in here imports the protocol code of the tree under test: frame encoders, the CRC8 and the strict
frame grammars are written from the protocol descriptions so that they are an independent reference.
Only mpf.tests.loop.MockSerial (the fd double the TimeTravelLoop selector understands) is reused.
"""
import random
import re


# ------------------------------------------------------------------------------------------------
# independent codecs
def crc8(data):
    """CRC-8, polynomial x^8+x^2+x+1 (0x07), initial value 0xFF, no reflection, no final xor (OPP)."""
    crc = 0xFF
    for b in data:
        crc ^= b
        for _ in range(8):
            crc = ((crc << 1) ^ 0x07) & 0xFF if crc & 0x80 else (crc << 1) & 0xFF
    return crc


def opp_frame(addr, cmd, payload):
    body = bytes([addr, cmd]) + bytes(payload)
    return body + bytes([crc8(body)])


def opp_inp_frame(addr, state32):
    return opp_frame(addr, 0x08, state32.to_bytes(4, "big"))


def opp_matrix_frame(addr, state64):
    return opp_frame(addr, 0x19, state64.to_bytes(8, "big"))


def opp_frame_valid(msg):
    """Independent validity of a frame handed to the platform: input (7) or matrix (11) report with good CRC."""
    if len(msg) == 7 and msg[1] == 0x08 and (msg[0] & 0xE0) == 0x20:
        return crc8(msg[:6]) == msg[6]
    if len(msg) == 11 and msg[1] == 0x19 and (msg[0] & 0xE0) == 0x20:
        return crc8(msg[:10]) == msg[10]
    return False


FAST_SW_RE = re.compile(r"^([-/])L:([0-9A-F]{2})$")
FAST_SA_RE = re.compile(r"^SA:([0-9A-F]{2}),((?:[0-9A-F]{2})+)$")
PKONE_PSW_RE = re.compile(r"^PSW([0-7])([0-9]{2})([01])$")


def fast_parse_strict(seg, sa_bytes=14):
    """seg: bytes between two CR.  Classifies a FAST NET message against the protocol grammar:
    ('sw', num, state) / ('sa', {num: state})  strictly valid report (upper-case hex, fixed widths) - must be applied
    ('ambig',)   a decoder may or may not accept it (lower-case hex digits; SA: whose count field is written
                 differently or differs from 0E but is consistent with the amount of data) - either outcome is fine
    ('bad',)     malformed report (wrong length / count inconsistent with data / not hex) - must not change a switch
    ('benign',)  WD:P, TL:P, empty      ('other', header)  any other message (not a switch report)."""
    try:
        s = seg.decode("ascii")
    except UnicodeDecodeError:
        return ("bad",)
    m = FAST_SW_RE.match(s)
    if m:
        return ("sw", int(m.group(2), 16), 1 if m.group(1) == "-" else 0)
    if s[:3] in ("-L:", "/L:"):
        return ("ambig",) if re.match(r"^[0-9A-Fa-f]{2}$", s[3:]) else ("bad",)
    if s[:3] == "SA:":
        m = FAST_SA_RE.match(s)
        if m and int(m.group(1), 16) == sa_bytes and len(m.group(2)) == 2 * sa_bytes:
            raw = bytes.fromhex(m.group(2))
            return ("sa", {o * 8 + i: (raw[o] >> i) & 1 for o in range(sa_bytes) for i in range(8)})
        m = re.match(r"^SA:([0-9A-Fa-f]+),([0-9A-Fa-f]*)$", s)
        if m and int(m.group(1), 16) * 2 == len(m.group(2)):
            return ("ambig",)
        return ("bad",)
    if s in ("WD:P", "TL:P", ""):
        return ("benign",)
    return ("other", s[:3])


def pkone_parse_strict(seg):
    try:
        s = seg.decode("ascii")
    except UnicodeDecodeError:
        return ("bad",)
    m = PKONE_PSW_RE.match(s)
    if m:
        return ("sw", (int(m.group(1)), int(m.group(2))), int(m.group(3)))
    if s in ("PWD", ""):
        return ("benign",)
    return ("other", s[:3])


# ------------------------------------------------------------------------------------------------
# chunking / corruption
def chunks(data, mode, seed, maxn=128):
    r = random.Random(seed)
    out, i = [], 0
    while i < len(data):
        if mode == "whole":
            n = maxn
        elif mode == "one":
            n = 1
        elif mode == "small":
            n = r.randint(1, 3)
        elif mode == "mixed":
            n = r.choice([1, 2, 3, 5, 6, 7, 8, 11, 17, 64, 128])
        elif mode == "frame7":
            n = r.choice([6, 7, 8])
        else:  # big
            n = r.randint(40, 128)
        n = max(1, min(n, maxn))
        out.append(data[i:i + n])
        i += n
    return out


def corrupt(data, ops, delim=None):
    """ops: list of [kind, pos_frac(0..1), n, seed]; applied in order.  Byte kinds: flip / set / insert / delete /
    ascii / insert_ascii at pos_frac*len.  Frame kinds (need delim): fdel (drop n bytes just before the chosen
    delimiter = truncated frame), fins (n extra hex digits before it = overlong frame), fjoin (drop the delimiter
    itself = two frames run together)."""
    b = bytearray(data)
    for kind, frac, n, seed in ops:
        r = random.Random(seed)
        if not b and kind != "insert":
            continue
        pos = min(int(frac * len(b)), max(0, len(b) - 1))
        if kind in ("fdel", "fins", "fjoin"):
            marks = [i for i in range(len(b)) if delim and b[i:i + 1] == delim]
            if not marks:
                continue
            at = marks[min(int(frac * len(marks)), len(marks) - 1)]
            if kind == "fdel":
                k = min(n, 3)
                del b[max(0, at - k):at]
            elif kind == "fins":
                b[at:at] = bytes(r.choice(b"0123456789ABCDEF") for _ in range(min(n, 3)))
            else:
                del b[at:at + 1]
            continue
        if kind == "flip":
            for k in range(n):
                if pos + k < len(b):
                    b[pos + k] ^= 1 << r.randrange(8)
        elif kind == "set":
            for k in range(n):
                if pos + k < len(b):
                    b[pos + k] = r.randrange(256)
        elif kind == "insert":
            b[pos:pos] = bytes(r.randrange(256) for _ in range(n))
        elif kind == "insert_ascii":
            b[pos:pos] = bytes(r.choice(b"0123456789ABCDEF") for _ in range(n))
        elif kind == "delete":
            del b[pos:pos + n]
        elif kind == "ascii":     # printable replacement (keeps FAST/PKONE decoders from raising)
            for k in range(n):
                if pos + k < len(b):
                    b[pos + k] = r.choice(b"0123456789ABCDEFLSWP:-/,")
    return bytes(b)


# ------------------------------------------------------------------------------------------------
def _mockserial_base():
    from mpf.tests.loop import MockSerial
    return MockSerial


def make_port_class():
    """Create the hostile port class lazily (needs the tree under test on sys.path)."""
    MockSerial = _mockserial_base()

    class HostilePort(MockSerial):
        """Serial double: MPF's writes are recorded (with virtual time) and handed to a board simulator;
        what MPF reads is exactly what the driver queued, one queued chunk per read() call."""

        def __init__(self, sim=None):
            super().__init__()
            self.rx = []            # chunks MPF will read
            self.writes = []        # (seq, t, bytes)
            self.sim = sim
            self.loop = None
            self.seq = None         # shared sequence counter (list with one int) set by the driver
            self.on_write = None

        # --- MPF side
        def read(self, length):
            if not self.rx:
                return b""
            ch = self.rx.pop(0)
            if len(ch) > length:
                self.rx.insert(0, ch[length:])
                ch = ch[:length]
            return ch

        def read_ready(self):
            return bool(self.rx)

        def write_ready(self):
            return True

        def write(self, data):
            data = bytes(data)
            t = self.loop.time() if self.loop else 0.0
            if self.seq is not None:
                self.seq[0] += 1
                s = self.seq[0]
            else:
                s = len(self.writes)
            self.writes.append((s, t, data))
            if self.on_write:
                self.on_write(s, t, data)
            if self.sim is not None:
                self.sim.from_mpf(data, self)
            return len(data)

        # --- driver side
        def push(self, data):
            if data:
                self.rx.append(bytes(data))

    return HostilePort


# ------------------------------------------------------------------------------------------------
class FastSim:
    """FAST Neuron board model: answers configuration traffic like the real firmware would.

    mode 'boot': every command is answered at once.  mode 'hostile': policy(cmd) decides per command:
    ('now',) | ('delay', secs) | ('drop',) | ('dup', secs).  Responses are scheduled on the loop in virtual time.
    """

    def __init__(self, boards, n_switch_bytes=14):
        self.boards = boards            # list of (model, n_drivers, n_switches)
        self.sl = {}
        self.dl = {}
        self.sw = [0] * (n_switch_bytes * 8)
        self.nbytes = n_switch_bytes
        self.mode = "boot"
        self.policy = None
        self.buf = b""
        self.cmds = []                  # (t, cmd) every command line received
        self.loop = None
        self.on_response = None         # callback(cmd, rsp, action)

    def sa(self):
        raw = bytearray(self.nbytes)
        for i, v in enumerate(self.sw):
            if v:
                raw[i // 8] |= 1 << (i % 8)
        return "SA:%02X,%s" % (self.nbytes, raw.hex().upper())

    def response(self, cmd):
        if cmd == "ID:":
            return "ID:NET FP-CPU-2000  02.13"
        if cmd.startswith("CH:"):
            return "CH:P"
        if cmd.startswith("WD:"):
            return "WD:P"
        if cmd == "SA:":
            return self.sa()
        if cmd.startswith("NN:"):
            try:
                n = int(cmd[3:], 16)
            except ValueError:
                return "NN:F"
            if n < len(self.boards):
                model, dr, sw = self.boards[n]
                return "NN:%02X,%-16s,01.10,%02X,%02X,00,00,00,00,00,00" % (n, model + "-3", dr, sw)
            return "NN:%02X,!Node Not Found!,00.00,00,00,00,00,00,00,00,00" % n
        if cmd.startswith("SL:"):
            f = cmd[3:].split(",")
            if len(f) == 1:
                return "SL:" + ",".join([f[0]] + self.sl.get(f[0], ["00", "00", "00"]))
            self.sl[f[0]] = f[1:4]
            return "SL:P"
        if cmd.startswith("DL:"):
            f = cmd[3:].split(",")
            if len(f) == 1:
                return "DL:" + ",".join([f[0]] + self.dl.get(f[0], ["00"] * 8))
            self.dl[f[0]] = f[1:9]
            return "DL:P"
        if cmd.startswith("TL:"):
            return "TL:P"
        return None

    def from_mpf(self, data, port):
        self.buf += data
        while b"\r" in self.buf:
            line, self.buf = self.buf.split(b"\r", 1)
            if not line:
                continue
            cmd = line.decode("latin-1")
            t = self.loop.time() if self.loop else 0.0
            self.cmds.append((t, cmd))
            rsp = self.response(cmd)
            if rsp is None:
                continue
            action = ("now",)
            if self.mode == "hostile" and self.policy is not None:
                action = self.policy(cmd)
            if self.on_response:
                self.on_response(cmd, rsp, action)
            raw = rsp.encode() + b"\r"
            if action[0] == "now":
                port.push(raw)
            elif action[0] == "delay":
                self.loop.call_later(action[1], port.push, raw)
            elif action[0] == "dup":
                port.push(raw)
                self.loop.call_later(action[1], port.push, raw)
            # drop: nothing


class OppSim:
    """OPP gen2 chain model for boot: inventory, config, version, serial number, initial inputs.

    cards: list of dicts {addr, wings(4 bytes), version(int), inp(int32) , matrix(int64|None)}."""
    LEN = {0x00: 7, 0x02: 7, 0x07: 7, 0x08: 7, 0x0d: 7, 0x13: 8, 0x14: 7, 0x17: 5, 0x19: 11}

    def __init__(self, cards):
        self.cards = {c["addr"]: c for c in cards}
        self.order = [c["addr"] for c in cards]
        self.answer_polls = True
        self.loop = None
        self.unknown = 0

    def from_mpf(self, msg, port):
        out = b""
        if not self.answer_polls:       # after boot the driver owns the line: the chain stays silent
            return
        while msg:
            b0 = msg[0]
            if b0 == 0xFF:
                out += b"\xff"
                msg = msg[1:]
                continue
            if b0 == 0xF0:
                out += b"\xf0" + bytes(self.order)
                msg = msg[1:]
                continue
            if len(msg) < 2:
                break
            cmd = msg[1]
            if cmd == 0x40:
                n = 9 + msg[5] if len(msg) >= 6 else len(msg)
            else:
                n = self.LEN.get(cmd)
                if n is None:
                    self.unknown += 1
                    break
            frame, msg = msg[:n], msg[n:]
            card = self.cards.get(frame[0])
            if card is None:
                continue
            if cmd == 0x0d:
                out += opp_frame(frame[0], 0x0d, card["wings"])
            elif cmd == 0x02:
                out += opp_frame(frame[0], 0x02, card["version"].to_bytes(4, "big"))
            elif cmd == 0x00:
                out += opp_frame(frame[0], 0x00, (0x01234567).to_bytes(4, "big"))
            elif cmd == 0x08 and self.answer_polls:
                out += opp_inp_frame(frame[0], card["inp"])
            elif cmd == 0x19 and self.answer_polls:
                out += opp_matrix_frame(frame[0], card["matrix"] or 0)
        if out:
            port.push(out)


class PkoneSim:
    """PKONE Nano model for boot.  boards: {addr: ('X', n_switches) | ('L',)}; switches[addr] = list of 0/1 (35)."""

    def __init__(self, boards, switches):
        self.boards = boards
        self.switches = switches
        self.buf = b""
        self.loop = None
        self.respond = True
        self.cmds = []

    def from_mpf(self, data, port):
        self.buf += data
        while b"E" in self.buf:
            line, self.buf = self.buf.split(b"E", 1)
            cmd = line.decode("latin-1")
            self.cmds.append(cmd)
            if not self.respond:
                continue
            rsp = None
            if cmd == "PCN":
                rsp = "PCNF11H1"
            elif cmd.startswith("PCB") and len(cmd) == 4:
                a = int(cmd[3])
                b = self.boards.get(a)
                if b is None:
                    rsp = "PCB%dN" % a
                elif b[0] == "X":
                    rsp = "PCB%dXF11H2PY" % a
                else:
                    rsp = "PCB%dLF10H1RGB" % a
            elif cmd == "PRS":
                rsp = "PRS"
            elif cmd.startswith("PSA") and len(cmd) == 4:
                a = int(cmd[3])
                rsp = "PSA%d%s" % (a, "".join(str(v) for v in self.switches.get(a, [0] * 35)))
            elif cmd == "PWD":
                rsp = "PWD"
            elif len(cmd) >= 3:
                rsp = cmd[:3]
            if rsp is not None:
                port.push(rsp.encode() + b"E")
