"""C15 crash-point child.  Run as:  python -m vlib.c15_child <base_dir> <alias_dir> <shape> <salt>

Drives the REAL DataManager (writer thread under the virtual-time scheduler, real files) through
    save_all(v1) ; MARK ; save_all(v2) ; MARK ; save_all(v2 again) ; save_all(v3) ; shutdown
while the parent has strace inject a SIGKILL or an errno into one syscall of the v2 save.  The main thread
never touches the traced paths itself: it only hard-links the target into <base>/snap through <alias_dir> (a symlink to the
data directory, which strace's -P path filter does not match), so only the writer thread's syscalls are counted.
Reports one JSON line on stdout.
"""
import json
import os
import sys


def main(argv):
    base, alias, shape, salt = argv[0], argv[1], argv[2], argv[3]
    from vlib import boot
    boot.guard_import()
    from vlib import c15_values as V
    from vlib.c15_sched import Sched
    from vlib.c15_engine import stub_machine
    from mpf.core import data_manager as dm_mod, file_manager as fm_mod
    from mpf.file_interfaces import yaml_interface as yi_mod

    sched = Sched(watchdog_s=40.0)
    sched.install_shims([dm_mod, fm_mod, yi_mod])
    stopper = sched.event()
    machine = stub_machine(base, ["a"], stopper)
    mark = os.path.join(base, "data", "MARK")
    alias_target = os.path.join(alias, "a.yaml")
    out = {"steps": []}

    def snap(tag):
        # hard-link the current target inode into <base>/snap (the parent reads it later); going through the
        # alias path keeps these syscalls out of strace's path filter
        try:
            os.link(alias_target, os.path.join(base, "snap", tag + ".yaml"))
            out[tag] = True
        except FileNotFoundError:
            out[tag] = None

    FM = fm_mod.FileManager
    orig_save = FM.save
    out["save_errors"] = []

    def save(filename, data):
        try:
            return orig_save(filename, data)
        except Exception as e:
            out["save_errors"].append(repr(e)[:160])
            raise

    FM.save = staticmethod(save)
    dm = dm_mod.DataManager(machine, "a", min_wait_secs=0.05)
    sched.advance(0.2)
    dm.save_all(V.crash_payload(shape, salt, 1))
    sched.advance(5.0)
    os.access(mark, os.F_OK)            # ---- window begins
    dm.save_all(V.crash_payload(shape, salt, 2))
    sched.advance(5.0)
    os.access(mark, os.F_OK)            # ---- window ends
    snap("after_v2")
    dm.save_all(V.crash_payload(shape, salt, 2))      # the owner saves the SAME content again (retry / unchanged state)
    sched.advance(120.0)
    snap("after_v2_again")
    dm.save_all(V.crash_payload(shape, salt, 3))
    sched.advance(120.0)
    snap("after_v3")
    stopper.set()
    for _ in range(400):
        if sched.all_done():
            break
        sched.advance(0.5)
    snap("final")
    out["writers_exited"] = sched.all_done()
    out["died"] = [r.died for r in sched.threads if r.died]
    out["is_busy"] = bool(getattr(fm_mod.FileManager, "is_busy", False))
    sys.stdout.write(json.dumps(out) + "\n")
    sys.stdout.flush()
    sched.teardown()
    os._exit(0)


if __name__ == "__main__":
    main(sys.argv[1:])
