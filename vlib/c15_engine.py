"""C15 helper: drives the REAL DataManager / FileManager / YamlInterface on a temp dir under vlib.c15_sched.

Used by checks/c15_persist.py (mode "sched") and by vlib/c15_child.py (the process that is killed / gets
I/O errors injected by strace).  No oracle decisions are taken here except the on-disk *history* check,
which has to run at every scheduling point.
"""
import copy
import errno
import os
import types

from vlib import c15_values as V
from vlib.c15_sched import Sched


def stub_machine(path, names, stopper):
    """The three attributes DataManager needs from a MachineController."""
    return types.SimpleNamespace(
        config={"mpf": {"paths": {n: "data/%s.yaml" % n for n in names}},
                "logging": {"console": {"data_manager": "none"}, "file": {"data_manager": "none"}}},
        machine_path=path, thread_stopper=stopper, options={"production": False})


def fresh_process_state(fm_mod, yi_mod):
    """Case isolation: give every case the process-wide state a freshly started mpf process has.
    FileManager.is_busy and the module-level ruamel dumper of yaml_interface are globals that a previous
    case may have left stuck / poisoned (that IS one of the findings; it must not leak into the next case)."""
    fm_mod.FileManager.is_busy = False
    old = getattr(yi_mod, "_yaml", None)
    if old is not None and type(old).__name__ == "YAML":
        from ruamel import yaml as r_yaml
        fresh = r_yaml.YAML(typ="safe")
        fresh.default_flow_style = False
        yi_mod._yaml = fresh


def swap_real_locks(sched, modules):
    """A tree under test may guard FileManager.save with a real lock created at import time.  Under the
    one-thread-at-a-time scheduler a writer blocking on a REAL lock would never hand the token back, so
    module- and class-level Lock/RLock objects of the modules under test are replaced by scheduler-aware
    ones for the duration of a case.  -> list of (owner, attribute, original) to restore."""
    import _thread
    from vlib.c15_sched import VLock
    lock_types = (_thread.LockType, _thread.RLock)
    out = []
    for mod in modules:
        owners = [mod] + [v for v in vars(mod).values()
                          if isinstance(v, type) and getattr(v, "__module__", None) == mod.__name__]
        for owner in owners:
            for name, val in list(vars(owner).items()):
                if isinstance(val, lock_types):
                    setattr(owner, name, VLock(sched, reentrant=isinstance(val, _thread.RLock)))
                    out.append((owner, name, val))
    return out


class History:
    """Offline-style checker run online: every distinct content observed on a target must be exactly one of
    the versions handed to save_all (or the initial content), and versions never go backwards."""

    def __init__(self, path, initial=None):
        self.path = path
        self.versions = {}          # (v, variant) -> python value handed to save_all (deep copy taken at the call)
        self.initial = initial      # python value present before the manager started (or None = no file)
        self.last_raw = b"\0unread"
        self.last_v = (-1, 0)
        self.seen_versions = []
        self.evals = 0
        self.observations = 0
        self.violations = []
        self.tolerant = False       # the caller mutates the dict it handed over (statement silent on snapshots)

    def classify(self, raw):
        """-> (rank or None, problem sig or None, detail).  rank = (version, variant): `versions` maps a rank to
        the exact python value handed to save_all; variants of one version differ only in the TYPE of leaves."""
        if raw is None:
            return None, None, None
        ok, val = V.parse_bytes(raw)
        if not ok:
            return None, "C15:target_torn_or_unparseable", {"error": val, "head": V.short(raw[:120])}
        if self.initial is not None and V.same(val, self.initial):
            return (0, 0), None, None
        if not isinstance(val, dict) or "_v" not in val:
            return None, "C15:target_torn_or_unparseable", {"parsed": V.short(val)}
        v = val["_v"]
        cands = sorted(r for r in self.versions if r[0] == v) if type(v) is int else []
        if not cands:
            return None, "C15:target_not_a_saved_version", {"parsed": V.short(val), "_v": V.short(v)}
        for r in reversed(cands):
            if V.same(val, self.versions[r]):
                return r, None, None
        return None, "C15:target_differs_from_saved_version", {"_v": v, "parsed": V.short(val),
                                                               "saved": V.short(self.versions[cands[-1]])}

    def observe(self, where=""):
        self.observations += 1
        raw = V.read_file(self.path)
        if raw == self.last_raw:
            return
        had_file = self.last_raw not in (None, b"\0unread")
        self.last_raw = raw
        self.evals += 1
        if raw is None:
            if had_file:
                self._viol("C15:target_vanished", {"where": where})
            return
        v, sig, detail = self.classify(raw)
        if sig and self.tolerant and not detail.get("error"):
            sig = None              # only "is a complete YAML document" is judged for such snapshots
        if sig:
            detail["where"] = where
            self._viol(sig, detail)
            if v is None:
                return
        if v is not None:
            if v < self.last_v:
                self._viol("C15:target_version_went_backwards", {"from": self.last_v, "to": v, "where": where})
            self.last_v = max(self.last_v, v)
            self.seen_versions.append(v)

    def _viol(self, sig, detail):
        if len(self.violations) < 5:
            detail = dict(detail)
            detail["file"] = os.path.basename(self.path)
            self.violations.append({"clause": "history", "sig": sig, "detail": detail})


class Engine:
    """One scheduler + n real DataManagers sharing the real FileManager."""

    def __init__(self, base_dir, names, min_wait, delays=None, tie_seed=0, deep=False, watchdog_s=30.0,
                 initial=None, jitter=None):
        from mpf.core import data_manager as dm_mod
        from mpf.core import file_manager as fm_mod
        from mpf.file_interfaces import yaml_interface as yi_mod
        self.dm_mod, self.fm_mod, self.yi_mod = dm_mod, fm_mod, yi_mod
        self.base = base_dir
        self.names = list(names)
        self.sched = Sched(delays=delays, tie_seed=tie_seed, watchdog_s=watchdog_s, jitter=jitter)
        self.stopper = self.sched.event()
        self.machine = stub_machine(base_dir, self.names, self.stopper)
        self.managers = []
        self.hist = []
        self.next_v = 1
        self.last_saved = {}        # manager idx -> rank (version, variant)
        self.save_order = []        # (seq, manager idx, version)
        self.seq = 0
        self.stop_seq = None
        self.failures = []          # (seq, filename, repr(exc), injected?)
        self.save_calls = 0
        self.inflight = 0
        self.max_inflight = 0
        self.fault = None           # dict(kind, target (path or None), oneshot)
        self.fault_log = []
        self._orig = {}
        self.events = []
        # --- fresh FileManager state for every case (class-level globals survive between cases)
        fresh_process_state(fm_mod, yi_mod)
        # production default; mpf.tests.MpfTestCase (imported by reboot-mode cases of the same worker) turns it on
        self._old_cache = yi_mod.YamlInterface.cache
        yi_mod.YamlInterface.cache = False
        fm_mod.FileManager.init()
        # --- shims (virtual time) and delay points
        mods = [dm_mod, fm_mod, yi_mod]
        self.sched.install_shims(mods)
        deep_mods = []
        if deep:
            import ruamel.yaml.main as r_main
            import ruamel.yaml.serializer as r_ser
            import ruamel.yaml.representer as r_rep
            import ruamel.yaml.emitter as r_emit
            import copy as copy_mod     # deepcopy of the handed dict: the caller may mutate it meanwhile
            deep_mods = [r_main, r_ser, r_rep, r_emit, copy_mod]
        self.n_codes = self.sched.install_monitoring(mods, deep_mods)
        self._swapped = swap_real_locks(self.sched, mods)
        self._wrap()
        self.sched.on_token = self.observe
        # --- the managers (their constructor starts the writer thread through the shim)
        os.makedirs(os.path.join(base_dir, "data"), exist_ok=True)
        for i, n in enumerate(self.names):
            path = os.path.join(base_dir, "data", n + ".yaml")
            init_val = None
            if initial and initial.get(i) is not None:
                init_val = initial[i]
                fm_mod.FileManager.save(path, copy.deepcopy(init_val))
            self.hist.append(History(path, init_val))
        self._observing = True
        for i, n in enumerate(self.names):
            mw = min_wait[i % len(min_wait)]
            self.managers.append(dm_mod.DataManager(self.machine, n, min_wait_secs=mw))
        self.loaded = [copy.deepcopy(m.data) for m in self.managers]

    # ------------------------------------------------------------------ observation wrappers
    def _wrap(self):
        FM = self.fm_mod.FileManager
        YI = self.yi_mod.YamlInterface
        eng = self
        orig_save = FM.save          # resolved callable (staticmethod today; a classmethod would work too)
        orig_ysave = YI.__dict__["save"]
        orig_replace = os.replace
        self._orig = {"fm_save": FM.__dict__["save"], "y_save": orig_ysave, "replace": orig_replace}

        def save(filename, data):
            eng.save_calls += 1
            eng.inflight += 1
            eng.max_inflight = max(eng.max_inflight, eng.inflight)
            try:
                return orig_save(filename, data)
            except BaseException as e:
                if isinstance(e, Exception):
                    eng.seq += 1
                    injected = "(injected)" in str(e) or (
                        isinstance(e, OSError) and bool(eng.fault) and eng.fault["kind"] == "blockdir"
                        and eng._fault_matches(filename, temp=False))
                    eng.failures.append((eng.seq, filename, repr(e)[:200], injected))
                    eng._note("write failed %s: %r" % (os.path.basename(filename), e))
                    eng._fault_consumed(filename)
                raise
            finally:
                eng.inflight -= 1

        def ysave(self_y, filename, data):
            f = eng.fault
            if f and f["kind"] == "enospc" and eng._fault_matches(filename, temp=True):
                with open(filename, "w", encoding="utf8") as out:
                    out.write("_v: 999999\npartial: [1, 2, {unterminated")
                raise OSError(errno.ENOSPC, "No space left on device (injected)")
            return orig_ysave(self_y, filename, data)

        class _FailingFile:
            """File object handed to the YAML dumper while the 'dump_write' fault is armed: the write of the
            dumper fails with EIO (an I/O error INSIDE the dump, like a full disk hit by the buffered writer)."""

            def __init__(self, f, filename):
                self._f, self._filename = f, filename

            def write(self, data):
                fl = eng.fault
                if fl and fl["kind"] == "dump_write" and eng._fault_matches(self._filename, temp=True):
                    raise OSError(errno.EIO, "Input/output error (injected)")
                return self._f.write(data)

            def __getattr__(self, name):
                return getattr(self._f, name)

            def __enter__(self):
                return self

            def __exit__(self, *a):
                return self._f.__exit__(*a)

        def v_open(filename, mode="r", *a, **kw):
            f = open(filename, mode, *a, **kw)
            fl = eng.fault
            if fl and fl["kind"] == "dump_write" and "w" in mode and eng._fault_matches(filename, temp=True):
                return _FailingFile(f, filename)
            return f

        self.yi_mod.open = v_open

        def replace(src, dst, *a, **kw):
            f = eng.fault
            if f and f["kind"] == "replace" and eng._fault_matches(dst, temp=False):
                raise OSError(errno.EIO, "Input/output error (injected)")
            return orig_replace(src, dst, *a, **kw)

        FM.save = staticmethod(save)
        YI.save = ysave
        os.replace = replace

    def _unwrap(self):
        if not self._orig:
            return
        self.fm_mod.FileManager.save = self._orig["fm_save"]
        self.yi_mod.YamlInterface.save = self._orig["y_save"]
        os.replace = self._orig["replace"]
        if "open" in vars(self.yi_mod):
            del self.yi_mod.open
        self._orig = {}

    def _note(self, s):
        if len(self.events) < 120:
            self.events.append("t=%.4f %s" % (self.sched.now, s))

    # ------------------------------------------------------------------ fault injection (in-process)
    def _temp_of(self, path):
        return os.path.join(os.path.dirname(path), "_" + os.path.basename(path))

    def _fault_matches(self, filename, temp):
        f = self.fault
        if not f:
            return False
        if f["target"] is None:
            return os.path.abspath(filename).startswith(os.path.abspath(self.base))
        want = self._temp_of(f["target"]) if temp else f["target"]
        return os.path.abspath(filename) == os.path.abspath(want)

    def fault_on(self, kind, m=None, oneshot=True):
        self.fault_off()
        target = None if m is None else self.hist[m % len(self.hist)].path
        self.fault = {"kind": kind, "target": target, "oneshot": oneshot, "dirs": []}
        if kind == "blockdir":
            for h in self.hist:
                if target is None or h.path == target:
                    t = self._temp_of(h.path)
                    if os.path.lexists(t):
                        # a write of this file is in flight (its temp file is open) or left a partial temp file:
                        # swapping the temp file for a directory now could get the DIRECTORY renamed onto the
                        # target, a state no I/O error produces.  Block only paths that do not exist yet.
                        continue
                    try:
                        os.mkdir(t)
                        self.fault["dirs"].append(t)
                    except OSError:
                        pass
        self.seq += 1
        self.fault_log.append((self.seq, "on", kind))
        self._note("fault on %s target=%s" % (kind, "all" if target is None else os.path.basename(target)))

    def fault_off(self):
        f = self.fault
        if not f:
            return
        self.fault = None
        for d in f.get("dirs", []):
            try:
                os.rmdir(d)
            except OSError:
                pass
        self.seq += 1
        self.fault_log.append((self.seq, "off", f["kind"]))
        self._note("fault off")

    def _fault_consumed(self, filename):
        f = self.fault
        if f and f["oneshot"]:
            self.fault_off()

    # ------------------------------------------------------------------ operations of the main thread
    def save(self, m, body, alias=False):
        """Hand a new version to manager m (real save_all).  -> rank (version, 0)"""
        m = m % len(self.managers)
        v = self.next_v
        self.next_v += 1
        mgr = self.managers[m]
        if alias and isinstance(mgr.data, dict) and self.last_saved.get(m) is not None:
            data = mgr.data               # the caller keeps mutating the dict it handed over (auditor, credits)
            if any(r.state not in ("done",) and r.blocked_in == "delay" for r in self.sched.threads):
                self.hist[m].tolerant = True      # a writer is paused mid-statement: it may be copying this dict
            data.clear()
            data.update(body)
        else:
            data = dict(body)
        data["_v"] = v
        data["_m"] = m
        data.setdefault("_t", 1)
        return self._hand(m, (v, 0), data, "save_all m%d v%d" % (m, v))

    def _hand(self, m, rank, data, note):
        if rank not in self.hist[m].versions:
            self.hist[m].versions[rank] = copy.deepcopy(data)
        self.seq += 1
        self.last_saved[m] = rank
        self.save_order.append((self.seq, m, rank))
        self._note(note)
        self.managers[m].save_all(data)
        return rank

    def resave(self, m, same_obj=False):
        """The owner saves its state again WITHOUT a change (same dict, or an equal copy).  Only the on-disk
        content matters: if the earlier write of this content succeeded the writer may skip it."""
        m = m % len(self.managers)
        rank = self.last_saved.get(m)
        if rank is None:
            return None
        mgr = self.managers[m]
        if same_obj and isinstance(mgr.data, dict) and V.same(mgr.data, self.hist[m].versions[rank]):
            data = mgr.data
        else:
            data = copy.deepcopy(self.hist[m].versions[rank])
        return self._hand(m, rank, data, "save_all m%d v%d.%d again (unchanged content)" % (m, rank[0], rank[1]))

    def typeswap(self, m):
        """A save whose only difference to the previous one is the TYPE of Python-equal leaves
        (1 -> True -> 1.0, 0 -> False -> 0.0): a new content, not a new version number."""
        m = m % len(self.managers)
        rank = self.last_saved.get(m)
        if rank is None or rank[1] >= 2:
            return None
        data = V.type_variant(copy.deepcopy(self.hist[m].versions[rank]))
        if V.same(data, self.hist[m].versions[rank]):
            return None
        new = (rank[0], rank[1] + 1)
        return self._hand(m, new, data, "save_all m%d v%d.%d (type-only change of v%d.%d)" % (m, new[0], new[1],
                                                                                       rank[0], rank[1]))

    def stop(self):
        if self.stop_seq is None:
            self.seq += 1
            self.stop_seq = self.seq
            self._note("thread_stopper.set()")
            self.stopper.set()

    def observe(self):
        if not getattr(self, "_observing", False):
            return
        for h in self.hist:
            h.observe("t=%.4f" % self.sched.now)

    def advance_to(self, t, wake_at_t=True):
        self.sched.advance_to(t, wake_at_t)
        self.observe()

    def advance(self, dt):
        self.advance_to(self.sched.now + dt)

    def wait_exit(self, horizon):
        """After stop(): advance until every writer thread has exited or `horizon` virtual seconds passed."""
        t_end = self.sched.now + horizon
        while not self.sched.all_done() and self.sched.now < t_end:
            nw = self.sched._next_wake()
            self.advance_to(min(t_end, nw if nw is not None else t_end))
            if nw is None and not self.sched._runnable():
                break
        return self.sched.all_done()

    def on_disk(self, m):
        """(version or None, sig or None, detail, raw) of manager m's target right now."""
        raw = V.read_file(self.hist[m].path)
        v, sig, detail = self.hist[m].classify(raw)
        return v, sig, detail, raw

    def is_busy(self):
        return bool(getattr(self.fm_mod.FileManager, "is_busy", False))

    def close(self):
        self._observing = False
        try:
            self.fault_off()
        finally:
            self._unwrap()
            for owner, name, real in getattr(self, "_swapped", []):
                setattr(owner, name, real)
            self.sched.teardown()
            fresh_process_state(self.fm_mod, self.yi_mod)
            self.yi_mod.YamlInterface.cache = self._old_cache

