"""C15 helper: virtual time for the DataManager writer THREADS (the analogue of TimeTravelLoop for threads).

The production classes (DataManager, FileManager, YamlInterface) run unmodified, on real threads and real
files.  Only the *time source* of mpf.core.data_manager is replaced: the module-level names `time`,
`threading` and `_thread` are rebound to shims so that

  * time.sleep(d) / Event.wait(timeout) of a writer thread block until the controller has advanced
    a virtual clock to the deadline (no real sleeping, the default 1 s rate limit costs nothing);
  * exactly one of {controller, writer threads} runs at any moment (token passing), so a case is a
    deterministic function of its description and replays exactly;
  * `sys.monitoring` LINE events restricted to the code objects of the three modules under test (optionally
    ruamel's dump path) are *delay points*: the case says "writer i, in its s-th run segment, at its l-th
    statement, is delayed by dt virtual seconds", which lets other writers and the main thread's operations
    (save_all, shutdown, fault arm/disarm) run *between two statements* of a save.

A wall-clock watchdog exists only to turn a stuck handoff into `Inconclusive` (never a verdict).
"""
import os
import sys
import threading as _real_threading
import time as _real_time
import _thread as _real_thread
import types

TOOL_ID = 3          # sys.monitoring tool id used for the delay points


class Inconclusive(Exception):
    """Wall-clock watchdog fired while waiting for a writer thread to hand the token back."""


class _Abandon(SystemExit):
    """Raised inside parked writer threads at teardown (SystemExit is silent in threads)."""


class _Rec:
    __slots__ = ("idx", "ident", "state", "wake", "event", "lock", "seg", "line", "lines_total", "died",
                 "blocked_in", "name")

    def __init__(self, idx):
        self.idx = idx
        self.ident = None
        self.state = "ready"      # ready | running | sleeping | waiting | lockwait | done
        self.wake = None          # virtual deadline (sleeping / waiting with timeout)
        self.event = None
        self.lock = None
        self.seg = 0
        self.line = 0
        self.lines_total = 0
        self.died = None
        self.blocked_in = None    # "sleep" | "wait" | "delay" | "lock"
        self.name = ""


class Sched:
    def __init__(self, delays=None, tie_seed=0, watchdog_s=30.0, epoch=1.7e9, jitter=None):
        import random
        # jitter = {"p": .., "seed": .., "dts": [..]}: a seeded random line-level scheduler.  At every statement of
        # a writer thread, with probability p, the thread is delayed by a dt drawn from dts (0 = plain yield to a
        # randomly chosen runnable thread).  Deterministic for a given case because everything else is.
        self.jitter = None
        if isinstance(jitter, dict) and jitter.get("p", 0) > 0:
            self.jitter = (float(jitter["p"]), [float(x) for x in (jitter.get("dts") or [0.0])])
            self.jrng = random.Random(int(jitter.get("seed", 0)))
        self.jitter_hits = 0
        self.cv = _real_threading.Condition()
        self.now = 0.0
        self.epoch = epoch
        self.turn = "main"
        self.threads = []
        self.by_ident = {}
        self.rng = random.Random(tie_seed)
        self.delays = {}
        for d in (delays or []):
            try:
                i, s, l, dt = d
                self.delays[(int(i), int(s), int(l))] = float(dt)
            except (TypeError, ValueError):
                continue
        self.delays_hit = 0
        self.watchdog_s = watchdog_s
        self.abandoned = False
        self.on_token = None          # callback run by the controller every time it gets the token back
        self.handoffs = 0
        self.trace = []
        self._installed = []
        self._codes = []
        self._mon = False

    # ------------------------------------------------------------------ token passing
    def _me(self):
        return self.by_ident.get(_real_thread.get_ident())

    def _park(self, rec):
        """Called by a writer thread (holding the token): give the token to the controller and wait."""
        with self.cv:
            self.turn = "main"
            self.cv.notify_all()
            while self.turn is not rec:
                if self.abandoned:
                    raise _Abandon()
                self.cv.wait(1.0)
            rec.state = "running"

    def _run(self, rec):
        """Controller: let `rec` run until it blocks again / exits."""
        t_end = _real_time.monotonic() + self.watchdog_s
        with self.cv:
            self.turn = rec
            self.cv.notify_all()
            while self.turn != "main":
                left = t_end - _real_time.monotonic()
                if left <= 0:
                    raise Inconclusive("writer thread %d did not hand the token back within %ss wall"
                                       % (rec.idx, self.watchdog_s))
                self.cv.wait(min(left, 1.0))
        self.handoffs += 1
        if self.on_token:
            self.on_token()

    # ------------------------------------------------------------------ thread creation
    def start_thread(self, fn, args=(), kwargs=None, name=""):
        rec = _Rec(len(self.threads))
        rec.name = name
        self.threads.append(rec)
        kwargs = kwargs or {}

        def boot():
            rec.ident = _real_thread.get_ident()
            with self.cv:
                self.by_ident[rec.ident] = rec
                self.cv.notify_all()
                try:
                    while self.turn is not rec:
                        if self.abandoned:
                            return
                        self.cv.wait(1.0)
                except BaseException:
                    return
                rec.state = "running"
            try:
                fn(*args, **kwargs)
            except _Abandon:
                return
            except SystemExit:
                pass
            except BaseException as e:   # the writer thread died: an observable, recorded for the oracle
                rec.died = repr(e)[:300]
            finally:
                if not self.abandoned:
                    with self.cv:
                        rec.state = "done"
                        self.turn = "main"
                        self.cv.notify_all()

        ident = _real_thread.start_new_thread(boot, ())
        # wait until the thread is registered (it will not run user code before it owns the token)
        t_end = _real_time.monotonic() + self.watchdog_s
        with self.cv:
            while rec.ident is None:
                if _real_time.monotonic() > t_end:
                    raise Inconclusive("thread did not start")
                self.cv.wait(0.5)
        return ident

    # ------------------------------------------------------------------ blocking primitives (writer side)
    def v_sleep(self, secs, why="sleep"):
        rec = self._me()
        if rec is None:
            return            # uncontrolled thread (controller): virtual sleep is a no-op
        rec.state = "sleeping"
        rec.wake = self.now + max(0.0, float(secs))
        rec.blocked_in = why
        self._park(rec)
        if why != "delay":
            rec.seg += 1
            rec.line = 0

    def v_wait(self, ev, timeout):
        rec = self._me()
        if rec is None:
            return ev._flag
        if ev._flag:
            return True
        rec.state = "waiting"
        rec.event = ev
        rec.wake = None if timeout is None else self.now + max(0.0, float(timeout))
        rec.blocked_in = "wait"
        self._park(rec)
        rec.event = None
        rec.seg += 1
        rec.line = 0
        return ev._flag

    def v_acquire(self, lock, blocking=True, timeout=-1):
        rec = self._me()
        if lock._owner is None or (lock._reentrant and lock._owner is (rec or "main")):
            lock._owner = rec or "main"
            lock._count += 1
            return True
        if rec is None or not blocking:
            return False
        deadline = None if timeout is None or timeout < 0 else self.now + timeout
        while True:
            rec.state = "lockwait"
            rec.lock = lock
            rec.wake = deadline
            rec.blocked_in = "lock"
            self._park(rec)
            rec.lock = None
            if lock._owner is None:
                lock._owner = rec
                lock._count = 1
                return True
            if deadline is not None and self.now >= deadline:
                return False

    def v_release(self, lock):
        lock._count -= 1
        if lock._count <= 0:
            lock._count = 0
            lock._owner = None

    # ------------------------------------------------------------------ controller side
    def _runnable(self):
        out = []
        for r in self.threads:
            if r.state == "ready":
                out.append(r)
            elif r.state == "waiting" and r.event is not None and r.event._flag:
                out.append(r)
            elif r.state == "lockwait" and r.lock is not None and r.lock._owner is None:
                out.append(r)
            elif r.state in ("sleeping", "waiting", "lockwait") and r.wake is not None and r.wake <= self.now:
                out.append(r)
        return out

    def _next_wake(self):
        ws = [r.wake for r in self.threads if r.state in ("sleeping", "waiting", "lockwait") and r.wake is not None]
        return min(ws) if ws else None

    def settle(self, max_steps=200000):
        """Run every writer that can run at the current virtual instant until all are blocked in time."""
        steps = 0
        while True:
            rs = self._runnable()
            if not rs:
                return
            rec = rs[0] if len(rs) == 1 else self.rng.choice(rs)
            self._run(rec)
            steps += 1
            if steps > max_steps:
                raise Inconclusive("settle did not converge")

    def advance_to(self, t, wake_at_t=True):
        """Advance virtual time to t, running writers as their deadlines pass.
        wake_at_t=False stops *before* deadlines that fall exactly on t (the caller's op goes first)."""
        self.settle()
        while True:
            nw = self._next_wake()
            if nw is None or nw > t or (nw == t and not wake_at_t):
                break
            if nw > self.now:
                self.now = nw
            self.settle()
        if t > self.now:
            self.now = t

    def advance(self, dt):
        self.advance_to(self.now + dt)

    def all_done(self):
        return all(r.state == "done" for r in self.threads)

    def describe(self):
        return [{"idx": r.idx, "state": r.state, "blocked_in": r.blocked_in,
                 "wake_in": None if r.wake is None else round(r.wake - self.now, 4),
                 "seg": r.seg, "lines": r.lines_total, "died": r.died} for r in self.threads]

    # ------------------------------------------------------------------ delay points (LINE events)
    def _on_line(self, code, line):
        rec = self.by_ident.get(_real_thread.get_ident())
        if rec is None or rec.state != "running":
            return None
        rec.line += 1
        rec.lines_total += 1
        dt = self.delays.get((rec.idx, rec.seg, rec.line))
        if dt is not None:
            self.delays_hit += 1
            if len(self.trace) < 200:
                self.trace.append("t=%.4f delay w%d seg%d line%d (%s:%d) dt=%g" % (
                    self.now, rec.idx, rec.seg, rec.line, os.path.basename(code.co_filename), line, dt))
            self.v_sleep(dt, why="delay")
        elif self.jitter is not None and self.jrng.random() < self.jitter[0]:
            self.jitter_hits += 1
            self.v_sleep(self.jrng.choice(self.jitter[1]), why="delay")
        return None

    def install_monitoring(self, modules, deep_modules=()):
        mon = sys.monitoring
        try:
            mon.use_tool_id(TOOL_ID, "c15")
        except ValueError:
            mon.free_tool_id(TOOL_ID)
            mon.use_tool_id(TOOL_ID, "c15")
        self._mon = True
        codes = []
        for m in list(modules) + list(deep_modules):
            codes.extend(_module_codes(m))
        mon.register_callback(TOOL_ID, mon.events.LINE, self._on_line)
        for c in codes:
            mon.set_local_events(TOOL_ID, c, mon.events.LINE)
        self._codes = codes
        return len(codes)

    # ------------------------------------------------------------------ shim installation
    def install_shims(self, modules):
        """Rebind `time`, `threading`, `_thread` in the given modules (only the names they already have)."""
        vt = _VTime(self)
        vth = _VThreading(self)
        vlow = _VThread(self)
        for m in modules:
            for name, shim, real in (("time", vt, _real_time), ("threading", vth, _real_threading),
                                     ("_thread", vlow, _real_thread)):
                if getattr(m, name, None) is real:
                    setattr(m, name, shim)
                    self._installed.append((m, name, real))
        return vth

    def event(self):
        return VEvent(self)

    def teardown(self):
        for m, name, real in self._installed:
            setattr(m, name, real)
        self._installed = []
        if self._mon:
            mon = sys.monitoring
            try:
                for c in self._codes:
                    mon.set_local_events(TOOL_ID, c, 0)
                mon.register_callback(TOOL_ID, mon.events.LINE, None)
                mon.free_tool_id(TOOL_ID)
            except Exception:   # noqa
                pass
            self._mon = False
        with self.cv:
            self.abandoned = True
            self.cv.notify_all()


def _module_codes(mod):
    """All code objects defined in a module (functions, methods, nested)."""
    seen = set()
    out = []

    def add_code(c):
        if id(c) in seen:
            return
        seen.add(id(c))
        out.append(c)
        for k in c.co_consts:
            if isinstance(k, types.CodeType):
                add_code(k)

    def add_obj(o, depth=0):
        if isinstance(o, (staticmethod, classmethod)):
            o = o.__func__
        if isinstance(o, types.FunctionType):
            if o.__code__.co_filename == getattr(mod, "__file__", None):
                add_code(o.__code__)
        elif isinstance(o, property):
            for f in (o.fget, o.fset, o.fdel):
                if f is not None:
                    add_obj(f, depth)
        elif isinstance(o, type) and depth < 2 and getattr(o, "__module__", None) == mod.__name__:
            for v in list(vars(o).values()):
                add_obj(v, depth + 1)

    for v in list(vars(mod).values()):
        add_obj(v)
    return out


# ---------------------------------------------------------------------------------------------- shims
class VEvent:
    """threading.Event on the virtual clock."""

    def __init__(self, sched):
        self._s = sched
        self._flag = False

    def is_set(self):
        return self._flag

    isSet = is_set

    def set(self):
        self._flag = True

    def clear(self):
        self._flag = False

    def wait(self, timeout=None):
        return self._s.v_wait(self, timeout)


class VLock:
    def __init__(self, sched, reentrant=False):
        self._s = sched
        self._owner = None
        self._count = 0
        self._reentrant = reentrant

    def acquire(self, blocking=True, timeout=-1):
        return self._s.v_acquire(self, blocking, timeout)

    def release(self):
        self._s.v_release(self)

    def locked(self):
        return self._owner is not None

    def __enter__(self):
        self.acquire()
        return self

    def __exit__(self, *a):
        self.release()
        return False


class _VTime:
    def __init__(self, sched):
        self._s = sched

    def sleep(self, secs):
        self._s.v_sleep(secs)

    def time(self):
        return self._s.epoch + self._s.now

    def monotonic(self):
        return self._s.now

    perf_counter = monotonic

    def __getattr__(self, name):
        return getattr(_real_time, name)


class _VThreading:
    def __init__(self, sched):
        self._s = sched
        s = sched

        class Thread:
            """Minimal threading.Thread on the scheduler (only what a writer thread needs)."""

            def __init__(self, group=None, target=None, name=None, args=(), kwargs=None, daemon=None):
                self._target, self._args, self._kwargs = target, args, kwargs or {}
                self.name = name or "vthread"
                self.daemon = daemon
                self._started = False
                self._rec = None

            def run(self):
                if self._target:
                    self._target(*self._args, **self._kwargs)

            def start(self):
                self._started = True
                s.start_thread(self.run, (), name=self.name)
                self._rec = s.threads[-1]

            def is_alive(self):
                return self._started and self._rec is not None and self._rec.state != "done"

            def join(self, timeout=None):
                return None

        self.Thread = Thread

    def Event(self):
        return VEvent(self._s)

    def Lock(self):
        return VLock(self._s)

    def RLock(self):
        return VLock(self._s, reentrant=True)

    def __getattr__(self, name):
        return getattr(_real_threading, name)


class _VThread:
    def __init__(self, sched):
        self._s = sched

    def start_new_thread(self, fn, args=(), kwargs=None):
        return self._s.start_thread(fn, args, kwargs)

    def allocate_lock(self):
        return VLock(self._s)

    def __getattr__(self, name):
        return getattr(_real_thread, name)
