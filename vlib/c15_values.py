"""C15 helper: payload generation (JSON-safe specs), decoding, strict equality, independent parsing.

A *spec* is JSON-serialisable; `build(spec)` turns it into the Python value handed to save_all.  Values that
JSON cannot carry are tagged: {"$": "f", "v": "nan"} (special floats), {"$": "b", "v": hex} (bytes),
{"$": "dt"/"d", "v": iso} (datetime/date), {"$": "set", "v": [...]}, {"$": "pad", "n": N, "c": "x"} (long string).
Tuples are not generated: YAML has no tuple (they come back as lists) — see ASSUMPTIONS of the check.
"""
import datetime
import math

STRINGS = ["", " ", "a", "yes", "no", "on", "off", "null", "~", "true", "True", "1", "1.5", "1e3", "0x10", "0o7",
           "010", "1_000", "+1", ".5", ".inf", ".nan", "2001-01-01", "2001-01-01 10:00:00", "a: b", "a #b", "#c",
           "- x", "[1]", "{a: 1}", "'q'", '"dq"', "multi\nline", "trail\n", "\nlead", "tab\tx", "cr\rx", "nul\x00x",
           "esc\x1bx", "nel\x85x", "ls x", "ps x", "bom﻿x", "äöü中文",
           "\U0001f389", "x " * 60, " lead", "trail ", "&a", "*a", "!t", "|", ">", "%d", "@a", "`a", "?", "? a", "-",
           "---", "...", "=", "<<", "\\", "a\\nb", "\x7f", "\xa0", "1:30", "1:30:00", "NaN", "None", "key: [",
           "AAA", "player1_score"]
KEYS = ["value", "expire", "expire_secs", "score", "name", "total", "top", "average", "credits", "switches", "events",
        "player", "yes", "1", "null", "a b", "k-1", "k_2", "ü", "x" * 40]


def gen_scalar(rng):
    k = rng.random()
    if k < 0.34:
        return rng.choice(STRINGS)
    if k < 0.40:
        return "".join(rng.choice("abc XYZ:#-\n'\"{}[],&*!|>%@`é中") for _ in range(rng.choice([1, 3, 8, 30])))
    if k < 0.62:
        return rng.choice([0, 1, -1, 255, 10 ** 6, -2 ** 31, 2 ** 63, 10 ** 30, rng.randint(-10 ** 9, 10 ** 9)])
    if k < 0.78:
        v = rng.choice([0.0, -0.0, 1.5, -2.25, 1e20, 1e-20, 1.7976931348623157e308, 5e-324, "inf", "-inf", "nan",
                        0.1, 1 / 3, 1e16, 1e22, 1e-5, rng.uniform(-1e6, 1e6)])
        if isinstance(v, str) or (v == 0.0 and math.copysign(1, v) < 0):
            return {"$": "f", "v": v if isinstance(v, str) else "-0.0"}
        return v
    if k < 0.88:
        return rng.choice([True, False])
    if k < 0.94:
        return None
    if k < 0.96:
        return {"$": "b", "v": bytes(rng.randrange(256) for _ in range(rng.choice([0, 1, 5, 40]))).hex()}
    if k < 0.98:
        return {"$": "dt", "v": datetime.datetime(2000 + rng.randrange(40), 1 + rng.randrange(12), 1 + rng.randrange(28),
                                                   rng.randrange(24), rng.randrange(60), rng.randrange(60),
                                                   rng.choice([0, 0, 123456])).isoformat()}
    if k < 0.99:
        return {"$": "d", "v": datetime.date(2000 + rng.randrange(40), 1 + rng.randrange(12),
                                              1 + rng.randrange(28)).isoformat()}
    return {"$": "set", "v": sorted(set(rng.randrange(20) for _ in range(rng.randrange(4))))}


def gen_value(rng, depth=0):
    k = rng.random()
    if depth >= 3 or k < 0.6:
        return gen_scalar(rng)
    if k < 0.8:
        return [gen_value(rng, depth + 1) for _ in range(rng.randint(0, 4))]
    return {rng.choice(KEYS): gen_value(rng, depth + 1) for _ in range(rng.randint(0, 4))}


def gen_body(rng, big=None):
    """Body of one saved version (dict of str -> value spec)."""
    body = {}
    for _ in range(rng.choice([0, 1, 2, 3, 5, 8])):
        body[rng.choice(KEYS) if rng.random() < 0.7 else (rng.choice(STRINGS) or "e")] = gen_value(rng)
    body.pop("$", None)
    if big is None:
        big = rng.choice([0, 0, 0, 300, 9000, 40000])
    if big:
        body["pad"] = {"$": "pad", "n": big, "c": rng.choice(["x", "é", "ab\n", "y z"])}
    return body


def build(spec):
    if isinstance(spec, list):
        return [build(x) for x in spec]
    if isinstance(spec, dict):
        t = spec.get("$")
        if t is None:
            return {k: build(v) for k, v in spec.items()}
        if t == "f":
            return float(spec["v"])
        if t == "b":
            return bytes.fromhex(spec["v"])
        if t == "dt":
            return datetime.datetime.fromisoformat(spec["v"])
        if t == "d":
            return datetime.date.fromisoformat(spec["v"])
        if t == "set":
            return set(spec["v"])
        if t == "many":
            return {"k%04d" % i: {"n": i, "s": "v%d" % (i % 7)} for i in range(int(spec["n"]))}
        if t == "pad":
            c = spec.get("c", "x") or "x"
            return (c * (int(spec["n"]) // len(c) + 1))[:int(spec["n"])]
        raise ValueError("bad spec tag %r" % (t,))
    return spec


def same(a, b):
    """Equality of values AND types; NaN equals NaN; -0.0 differs from 0.0."""
    if type(a) is not type(b):
        return False
    if isinstance(a, float):
        if math.isnan(a) or math.isnan(b):
            return math.isnan(a) and math.isnan(b)
        return a == b and math.copysign(1, a) == math.copysign(1, b)
    if isinstance(a, list):
        return len(a) == len(b) and all(same(x, y) for x, y in zip(a, b))
    if isinstance(a, dict):
        return set(a) == set(b) and all(same(a[k], b[k]) for k in a)
    return a == b


def loose_equal(a, b):
    """Python `==` extended structurally, NaN equals NaN (the property says 'equal values')."""
    if isinstance(a, float) and isinstance(b, float) and math.isnan(a) and math.isnan(b):
        return True
    if isinstance(a, list) and isinstance(b, list):
        return len(a) == len(b) and all(loose_equal(x, y) for x, y in zip(a, b))
    if isinstance(a, dict) and isinstance(b, dict):
        return set(a) == set(b) and all(loose_equal(a[k], b[k]) for k in a)
    try:
        return bool(a == b)
    except Exception:   # noqa
        return False


_PARSER = None


def parse_bytes(raw):
    """Independent parse (own ruamel instance, not the YamlInterface under test).
    Returns (ok, value_or_error)."""
    global _PARSER
    if _PARSER is None:
        from ruamel.yaml import YAML
        _PARSER = YAML(typ="safe")
    try:
        txt = raw.decode("utf8")
    except UnicodeDecodeError as e:
        return False, "not utf8: %r" % (e,)
    try:
        return True, _plain(_PARSER.load(txt))
    except Exception as e:   # noqa
        return False, repr(e)[:300]


def _plain(o):
    if isinstance(o, dict):
        return {k: _plain(v) for k, v in o.items()}
    if isinstance(o, list):
        return [_plain(v) for v in o]
    return o


def read_file(path):
    """Raw bytes of a file, or None if it does not exist."""
    try:
        with open(path, "rb") as f:
            return f.read()
    except FileNotFoundError:
        return None
    except IsADirectoryError:
        return None


def short(o, n=300):
    s = repr(o)
    return s if len(s) <= n else s[:n] + "...(%d chars)" % len(s)


def crash_payload(shape, salt, v):
    """Deterministic payload of version v for the crash-point enumeration (same function in parent and child)."""
    import random
    rng = random.Random("%s:%s:%s" % (shape, salt, v))
    body = {"_v": v, "_m": 0}
    if shape == "tiny":
        body["a"] = v
    elif shape == "unicode":
        for i in range(12):
            body["k%d" % i] = rng.choice(STRINGS)
        body["ü-key"] = "中文 \U0001f389 %d" % v
    elif shape == "nested":
        body["audits"] = {"switches": {"s_%d" % i: rng.randrange(1000) for i in range(40)},
                          "player": {"score": {"top": [rng.randrange(10 ** 9) for _ in range(10)], "average": 1.5 * v,
                                               "total": v}},
                          "list": [[1, [2, [3, [v, None, True, {"deep": [float("inf"), -0.0]}]]]]]}
    elif shape == "multiline":
        body["text"] = "\n".join("line %d of version %d: %s" % (i, v, rng.choice(STRINGS)) for i in range(60 + v))
        body["trail"] = "ends with newline\n"
    elif shape == "two_buffers":
        body["pad"] = ("v%d-" % v) * (3000 + 100 * v)
    elif shape == "many_buffers":
        body["pad"] = ("v%d é " % v) * (14000 + 1000 * v)
        body["high_scores"] = {"score": [["AAA", rng.randrange(10 ** 9)] for _ in range(300)]}
    else:
        raise ValueError(shape)
    return body


def type_variant(o, top=True):
    """One step of Python-equal, type-different replacement on every 0/1-valued leaf:
    int 0/1 -> bool, bool -> float (0.0 / 1.0).  `variant == original` holds in Python, `same()` does not.
    The bookkeeping keys _v/_m of a payload keep their type."""
    if isinstance(o, dict):
        return {k: (v if (top and k in ("_v", "_m")) else type_variant(v, False)) for k, v in o.items()}
    if isinstance(o, list):
        return [type_variant(v, False) for v in o]
    if type(o) is int and o in (0, 1):
        return bool(o)
    if type(o) is bool:
        return float(o)
    return o
