"""C16 helpers: expression generator over the supported template grammar and the Python reference evaluator.

No mpf import here.  The reference is *Python itself*: the template source is parsed with ast.parse, three node kinds are
rewritten into calls of tiny shims (BoolOp -> evaluate ALL operands, then Python's own and/or; Pow/Mult -> size guard,
then Python's own operator; Subscript -> Python's own [] with its lookup errors tagged), compiled and eval()ed over a
namespace of plain mirror objects.
"""
import ast
import math

# ------------------------------------------------------------------------------------------------------------------
# schema shared by the generator, the machine config and the mirrors
PARAMS = ["a", "b", "c", "d", "e"]
MISSING_PARAM = "zz"
MVARS = ["mv0", "mv1", "mv2", "mv3"]          # mv2/mv3 undefined at boot
MISSING_MVAR = "mvx"
SETTINGS = ["st0", "st1"]
PVARS = ["pv0", "pv1", "pv2"]                 # pv2 not configured (reads 0 until set)
# (collection, device, placeholder attribute, real attribute)
DEVICE_ATTRS = [
    ("counters", "cg", "value", "value"),
    ("counters", "cg", "enabled", "enabled"),
    ("counters", "c1", "value", "value"),
    ("counters", "c1", "enabled", "enabled"),
    ("counters", "c2", "value", "value"),
    ("counters", "c2", "completed", "completed"),
    ("accruals", "a1", "value", "value"),
    ("switches", "s1", "state", "state"),
    ("timers", "t1", "ticks", "ticks"),
    ("timers", "t1", "running", "running"),
    ("playfields", "playfield", "balls", "balls"),
    ("playfields", "playfield", "available_balls", "available_balls"),
    ("flippers", "f1", "enabled", "_enabled"),
]
MODE_DEVICES = {("counters", "c1"), ("counters", "c2"), ("accruals", "a1")}

INT_VALUES = [0, 1, 2, 3, 5, 7, 10, 100, 255, -1, -3, 1000003]
FLOAT_VALUES = [0.0, 0.5, 1.5, 2.0, -2.5, 1e3, 1e-3, 3.0]
STR_VALUES = ["", "a", "ab", "b", "x1", "v%d", "7"]
SCALARS = "int/float/bool/str/None"
# Magnitude classes for VARIABLE values in change histories (not for literals of the evaluation batches): a value and
# steps that are tiny relative to it (<= 1e-9 of its magnitude) but still change it under Python's !=.  A notification
# path that decides "changed?" with a relative tolerance, a float conversion or a truncation loses exactly these.
MAGNITUDES = [
    (1000000000, [1, -1]),
    (20000000000, [1, 10, -1, -7]),
    (10 ** 12, [1, 1000, -500]),
    (3e12, [500.0, 1, -0.5]),
    (10 ** 15 + 7, [1, 100, -3]),
    (-20000000000, [1, -10]),
    (2.5e15, [1.0, -2.0]),
    (1e-9, [1e-19, -1e-20]),
    (1e-3, [1e-13, -1e-14]),
]
BIG_THRESHOLDS = [1000000000, 20000000005, 10 ** 12 + 500, 3e12 + 250.0, -20000000005, 1e-9 + 5e-20]


def rand_value(rng, kinds="ifbsn"):
    k = rng.choice(kinds)
    if k == "i":
        return rng.choice(INT_VALUES)
    if k == "f":
        return rng.choice(FLOAT_VALUES)
    if k == "b":
        return rng.choice([True, False])
    if k == "s":
        return rng.choice(STR_VALUES)
    return None


# ------------------------------------------------------------------------------------------------------------------
# generator (builds ast nodes, emits source with ast.unparse so that precedence is decided by the parser)
_LOAD = ast.Load()


def _name(n):
    return ast.Name(id=n, ctx=_LOAD)


def _const(v):
    if isinstance(v, (int, float)) and not isinstance(v, bool) and v < 0:
        return ast.UnaryOp(op=ast.USub(), operand=ast.Constant(value=-v))
    return ast.Constant(value=v)


def _hop(rng, base, item, p_item):
    """attribute or item access of `item` on `base`."""
    if rng.random() < p_item:
        return ast.Subscript(value=base, slice=ast.Constant(value=item), ctx=_LOAD)
    return ast.Attribute(value=base, attr=item, ctx=_LOAD)


def placeholder_leaf(rng, p_item=0.25, kinds=None, allow_missing=True):
    k = rng.choice(kinds or ["machine", "machine", "settings", "current_player", "players", "device", "device"])
    if k == "machine":
        names = MVARS + ([MISSING_MVAR] if allow_missing else [])
        return _hop(rng, _name("machine"), rng.choice(names), p_item)
    if k == "settings":
        return ast.Attribute(value=_name("settings"), attr=rng.choice(SETTINGS), ctx=_LOAD)
    if k == "current_player":
        return _hop(rng, _name("current_player"), rng.choice(PVARS), p_item)
    if k == "players":
        idx = rng.choice([0, 0, 1, 1, 2])
        pl = ast.Subscript(value=_name("players"), slice=ast.Constant(value=idx), ctx=_LOAD)
        return _hop(rng, pl, rng.choice(PVARS), p_item)
    coll, dev, attr, _ = rng.choice(DEVICE_ATTRS) if rng.random() > 0.12 else DEVICE_ATTRS[6]
    node = _hop(rng, _name("device"), coll, p_item)
    node = _hop(rng, node, dev, p_item)
    node = _hop(rng, node, attr, p_item)
    if coll == "accruals":
        node = ast.Subscript(value=node, slice=ast.Constant(value=rng.choice([0, 1, 2])), ctx=_LOAD)
    return node


BINOPS = [ast.Add, ast.Sub, ast.Mult, ast.Div, ast.FloorDiv, ast.Mod, ast.Pow, ast.BitXor]
CMPOPS = [ast.Eq, ast.NotEq, ast.Lt, ast.LtE, ast.Gt, ast.GtE]


class Gen:
    """Random expression of the supported grammar with at most `budget` nodes."""

    def __init__(self, rng, p_placeholder=0.2, p_item=0.25, p_tuple=0.05, p_computed_index=0.03, p_missing=0.04,
                 placeholder_kinds=None, params=True):
        self.rng = rng
        self.p_placeholder = p_placeholder
        self.p_item = p_item
        self.p_tuple = p_tuple
        self.p_computed_index = p_computed_index
        self.p_missing = p_missing
        self.placeholder_kinds = placeholder_kinds
        self.params = params

    def leaf(self):
        r = self.rng
        x = r.random()
        if x < self.p_placeholder:
            return placeholder_leaf(r, self.p_item, self.placeholder_kinds)
        if self.params and x < self.p_placeholder + 0.45:
            if r.random() < self.p_missing:
                return _name(MISSING_PARAM)
            return _name(r.choice(PARAMS))
        return _const(rand_value(r, "iiiiffbbssn"))

    def expr(self, budget):
        r = self.rng
        if budget <= 1:
            return self.leaf()
        x = r.random()
        if x < 0.12:
            return self.leaf()
        if x < 0.42:
            lb = r.randint(1, budget - 1)
            op = r.choice(BINOPS)
            right = self.expr(budget - 1 - lb) if op is not ast.Pow or r.random() < 0.3 else \
                _const(r.choice([0, 1, 2, 3, -1, 0.5, 2.0]))
            return ast.BinOp(left=self.expr(lb), op=op(), right=right)
        if x < 0.50:
            return ast.UnaryOp(op=r.choice([ast.USub, ast.Not])(), operand=self.expr(budget - 1))
        if x < 0.68:
            lb = r.randint(1, budget - 1)
            return ast.Compare(left=self.expr(lb), ops=[r.choice(CMPOPS)()], comparators=[self.expr(budget - 1 - lb)])
        if x < 0.84:
            n = r.choice([2, 2, 3, 3, 4])
            per = max(1, (budget - 1) // n)
            return ast.BoolOp(op=r.choice([ast.And, ast.Or])(), values=[self.expr(per) for _ in range(n)])
        if x < 0.93:
            per = max(1, (budget - 1) // 3)
            return ast.IfExp(test=self.expr(per), body=self.expr(per), orelse=self.expr(per))
        if x < 0.93 + self.p_tuple:
            n = r.choice([1, 2, 2, 3])
            per = max(1, (budget - 1) // n)
            tup = ast.Tuple(elts=[self.expr(per) for _ in range(n)], ctx=_LOAD)
            y = r.random()
            if y < 0.35:
                return ast.Subscript(value=tup, slice=ast.Constant(value=r.randrange(0, n + 1)), ctx=_LOAD)
            if y < 0.55:
                return ast.Compare(left=tup, ops=[r.choice([ast.Eq, ast.NotEq, ast.Lt])()],
                                   comparators=[ast.Tuple(elts=[self.leaf() for _ in range(n)], ctx=_LOAD)])
            return tup
        if x < 0.93 + self.p_tuple + self.p_computed_index:
            # index computed from an expression (not a literal): 'ab'[n - 1], 'ab'[-1]
            base = r.choice([_const("ab"), _const("x1"), _name("a"), _name("b")])
            idx = r.choice([_name("c"), _name("d"), ast.UnaryOp(op=ast.USub(), operand=ast.Constant(value=1)),
                            ast.BinOp(left=_name("c"), op=ast.Sub(), right=ast.Constant(value=1))])
            return ast.Subscript(value=base, slice=idx, ctx=_LOAD)
        # literal index into a string valued thing
        base = r.choice([_const("ab"), _const("x1"), _name("a"), _name("e")])
        return ast.Subscript(value=base, slice=ast.Constant(value=r.choice([0, 1, 2])), ctx=_LOAD)

    def source(self, budget):
        node = ast.fix_missing_locations(ast.Expression(body=self.expr(budget)))
        return ast.unparse(node)


def features(src):
    """Syntactic features of a template source (used for shapes and for attributing a failure to a mechanism)."""
    tree = ast.parse(src, mode="eval")
    f = set()
    for n in ast.walk(tree):
        if isinstance(n, ast.Tuple):
            f.add("tuple")
        elif isinstance(n, ast.UnaryOp):
            f.add("usub" if isinstance(n.op, ast.USub) else "not")
        elif isinstance(n, ast.Subscript):
            if not isinstance(n.slice, ast.Constant):
                f.add("computed_index")
            elif isinstance(n.slice.value, str) and _is_placeholder_chain(n.value):
                f.add("item_placeholder")
            else:
                f.add("index")
        elif isinstance(n, ast.BoolOp):
            f.add("boolop%d" % min(len(n.values), 4))
        elif isinstance(n, ast.IfExp):
            f.add("if")
        elif isinstance(n, ast.Compare):
            f.add("cmp:" + type(n.ops[0]).__name__)
        elif isinstance(n, ast.BinOp):
            f.add("bin:" + type(n.op).__name__)
        elif isinstance(n, ast.Attribute):
            f.add("attr")
        elif isinstance(n, ast.Name) and n.id in GLOBAL_NAMES:
            f.add("ph:" + n.id)
    return f


GLOBAL_NAMES = ("machine", "settings", "current_player", "players", "device")


def _is_placeholder_chain(node):
    while isinstance(node, (ast.Attribute, ast.Subscript)):
        node = node.value
    return isinstance(node, ast.Name) and node.id in GLOBAL_NAMES


def placeholder_leaves(src):
    """Maximal placeholder access chains in `src` -> list of (source, root name, uses_item_access, key).

    key identifies the variable that is read, e.g. ('machine', 'mv0'), ('players', 1, 'pv0'),
    ('device', 'counters', 'c1', 'value'); the mirrors record the same keys when they are read.
    """
    tree = ast.parse(src, mode="eval")
    out = []
    seen = set()

    def visit(node):
        if isinstance(node, (ast.Attribute, ast.Subscript)) and _is_placeholder_chain(node) and \
                (isinstance(node, ast.Attribute) or isinstance(node.slice, ast.Constant)):
            s = ast.unparse(node)
            if s not in seen:
                seen.add(s)
                item = False
                n = node
                path = []
                while isinstance(n, (ast.Attribute, ast.Subscript)):
                    if isinstance(n, ast.Subscript):
                        if isinstance(n.slice, ast.Constant) and isinstance(n.slice.value, str):
                            item = True
                        path.append(n.slice.value if isinstance(n.slice, ast.Constant) else None)
                    else:
                        path.append(n.attr)
                    n = n.value
                root = n.id
                path.reverse()
                depth = {"machine": 1, "settings": 1, "current_player": 1, "players": 2, "device": 3}[root]
                out.append((s, root, item, (root,) + tuple(path[:depth])))
            return
        for c in ast.iter_child_nodes(node):
            visit(c)

    visit(tree.body)
    return out


# ------------------------------------------------------------------------------------------------------------------
# reference evaluation
class RefMissing(Exception):
    """A variable the expression reads does not exist (no game, no such player)."""


class RefSoft(Exception):
    """Python raises something the statement does not assign an outcome to (lookup errors of [])."""


class RefSkip(Exception):
    """Operands too large to be worth evaluating: the expression is skipped, not judged."""


def _all_and(*vals):
    res = vals[0]
    for v in vals[1:]:
        res = res and v
    return res


def _all_or(*vals):
    res = vals[0]
    for v in vals[1:]:
        res = res or v
    return res


def _size(v):
    if isinstance(v, bool):
        return 1
    if isinstance(v, int):
        return v.bit_length()
    if isinstance(v, (str, tuple, list)):
        return len(v)
    return 1


def _pow(a, b):
    if isinstance(a, int) and isinstance(b, int):
        if abs(b) > 64 or _size(a) * abs(b) > 20000:
            raise RefSkip()
    return a ** b


def _mul(a, b):
    for x, y in ((a, b), (b, a)):
        if isinstance(x, (str, tuple, list)) and isinstance(y, int) and not isinstance(y, bool):
            if y > 2000 or len(x) * max(y, 0) > 100000:
                raise RefSkip()
    if isinstance(a, int) and isinstance(b, int) and _size(a) + _size(b) > 100000:
        raise RefSkip()
    return a * b


def _idx(value, index):
    try:
        return value[index]
    except (TypeError, IndexError, KeyError) as e:
        raise RefSoft(repr(e)) from None


class _Rewrite(ast.NodeTransformer):
    def visit_BoolOp(self, node):
        self.generic_visit(node)
        fn = "__all_and" if isinstance(node.op, ast.And) else "__all_or"
        return ast.copy_location(ast.Call(func=ast.Name(id=fn, ctx=_LOAD), args=node.values, keywords=[]), node)

    def visit_BinOp(self, node):
        self.generic_visit(node)
        if isinstance(node.op, (ast.Pow, ast.Mult)):
            fn = "__pow" if isinstance(node.op, ast.Pow) else "__mul"
            return ast.copy_location(ast.Call(func=ast.Name(id=fn, ctx=_LOAD), args=[node.left, node.right],
                                              keywords=[]), node)
        return node

    def visit_Subscript(self, node):
        self.generic_visit(node)
        if isinstance(node.slice, ast.Slice):
            return node
        return ast.copy_location(ast.Call(func=ast.Name(id="__idx", ctx=_LOAD), args=[node.value, node.slice],
                                          keywords=[]), node)


_SHIMS = {"__all_and": _all_and, "__all_or": _all_or, "__pow": _pow, "__mul": _mul, "__idx": _idx}
_CODE_CACHE = {}


def compile_ref(src):
    code = _CODE_CACHE.get(src)
    if code is None:
        tree = ast.parse(src, mode="eval")
        tree = ast.fix_missing_locations(_Rewrite().visit(tree))
        code = compile(tree, "<c16-ref>", "eval")
        if len(_CODE_CACHE) > 5000:
            _CODE_CACHE.clear()
        _CODE_CACHE[src] = code
    return code


# outcome kinds
VALUE, MISSING, TYPEERR, SOFT, SKIP = "value", "missing", "typeerror", "soft", "skip"


def ref_eval(src, namespace):
    """-> (kind, value_or_exc_repr).  namespace: dict of params and mirror objects."""
    code = compile_ref(src)
    ns = dict(_SHIMS)
    ns.update(namespace)
    try:
        return VALUE, eval(code, {"__builtins__": {}}, ns)    # noqa: S307 - our own generated arithmetic
    except RefSkip:
        return SKIP, None
    except (NameError, RefMissing) as e:
        return MISSING, repr(e)
    except TypeError as e:
        return TYPEERR, repr(e)
    except RefSoft as e:
        return SOFT, repr(e)
    except (ArithmeticError, ValueError, RecursionError, MemoryError) as e:
        return SOFT, repr(e)


def same(a, b):
    """Equality of value AND type; NaN equals NaN; -0.0 differs from 0.0; containers element-wise."""
    if type(a) is not type(b):
        return False
    if isinstance(a, float):
        if math.isnan(a) or math.isnan(b):
            return math.isnan(a) and math.isnan(b)
        return a == b and math.copysign(1, a) == math.copysign(1, b)
    if isinstance(a, complex):
        return same(a.real, b.real) and same(a.imag, b.imag)
    if isinstance(a, (tuple, list)):
        return len(a) == len(b) and all(same(x, y) for x, y in zip(a, b))
    return a == b


def differs(a, b):
    """Python-level inequality used for 'the value really changed' (NaN vs NaN counts as unchanged)."""
    try:
        if isinstance(a, float) and isinstance(b, float) and math.isnan(a) and math.isnan(b):
            return False
        return bool(a != b)
    except Exception:   # noqa
        return True


def short(v, n=120):
    try:
        s = repr(v)
    except Exception as e:   # noqa  (e.g. int too large for str conversion)
        s = "<unrepr %s %s>" % (type(v).__name__, type(e).__name__)
    return s if len(s) <= n else s[:n] + "..."
