"""C17 reference model: show schedule / events / effects, driven by the observation log.

The check (checks/c17_shows.py) wraps the boundaries the property names and appends plain tuples to a log:

  ("op", base, true, opid, kind, allowed_stop_ctxs)      harness starts a request (event post to the show_player)
  ("op_end", base, true, opid)
  ("create", base, true, ctx, show, cfg, start_time, start_step, start_running, replaces)   Show.play_with_config entry
  ("create_end", base, true, ctx)
  ("req", base, true, ctx, kind, kwargs)                  RunningShow.stop/pause/resume/advance/step_back/update entry
  ("req_end", base, true, ctx, kind)
  ("step", base, true, ctx, idx, section, start_time, priority, tokens)   ConfigPlayer.show_play_callback entry
  ("step_end", base, true, ctx, idx, section)
  ("color", base, true, light, color, fade, priority, key, start_time)    Light.color entry (show keys only)
  ("coil", base, true, coil, action)                      Driver.enable/disable/pulse entry
  ("event", base, true, name)                             recording handler of a configured event
  ("tick", base, true)                                    harness: vm.advance returned

`base` is the loop's base virtual time of the instant, `true` is loop.time() (base + injected latency).  The model
is a deterministic function of the log and the generated show specs; it never looks into RunningShow.
"""
import copy

TOL = 1e-6
RES = 1e-9          # asyncio clock resolution used by the loop: timers with when < time()+RES have fired

NAMED = {"red": (255, 0, 0), "blue": (0, 0, 255), "lime": (0, 255, 0), "white": (255, 255, 255),
         "yellow": (255, 255, 0), "black": (0, 0, 0)}
TAGS = {"grp": ["l0", "l1"]}
LIGHTS = ["l0", "l1", "l2", "l3"]

SIG_D16 = "C17:control_request_on_stopped_show_reruns_it"
SIG_FORK = "C17:resume_on_running_show_forks_schedule"


# ---------------------------------------------------------------------------------------------
# independent expansion of a generated step into the effects it must have at the devices
def _subst(s, tokens):
    for k, v in tokens.items():
        s = s.replace("(" + k + ")", str(v))
    return s


def parse_color(c):
    """colour string of the generator's alphabet -> rgb tuple or 'on'."""
    c = c.strip()
    if c == "on":
        return "on"
    if c in NAMED:
        return NAMED[c]
    if len(c) == 6:
        return (int(c[0:2], 16), int(c[2:4], 16), int(c[4:6], 16))
    raise ValueError("generator colour alphabet violated: %r" % (c,))


def expected_colors(lights, tokens, show_priority):
    """lights: list of [key, value]; value = express string or {"color":..,"fade":ms|None,"priority":int}.
    Returns {light: [acceptable (color, fade_ms|None, priority), ...]}: the step must send exactly one command per
    light; when several entries of one step address the same light (directly, by tag or by token) any of them is
    accepted (a step section is a mapping; the statement does not order its entries)."""
    out = {}
    for key, value in lights:
        if isinstance(value, dict):
            color, fade, prio = value["color"], value.get("fade"), value.get("priority", 0)
        else:
            v = str(value).replace(" ", "")
            fade, prio = None, 0
            if "-f" in v:
                v, f = v.split("-f")
                fade = int(f[:-2])          # generator writes "<n>ms"
            color = v
        color = _subst(color, tokens)
        names = [x.strip() for x in _subst(key, tokens).split(",")]
        for name in names:
            if not name or (name[0] == "(" and name[-1] == ")"):
                continue            # un-replaced placeholder: no effect
            targets = TAGS.get(name, [name])
            for t in targets:
                out.setdefault(t, []).append((parse_color(color), fade, prio + show_priority))
    return out


def model_steps(show):
    """Step list as the running show sees it (a non-zero time on the first step is an empty leading step)."""
    steps = []
    if show.get("lead_ms"):
        steps.append({"ms": show["lead_ms"], "lights": [], "coil": None, "mark": None, "child": None,
                      "sections": []})
    for i, st in enumerate(show["steps"]):
        sec = []
        if st.get("lights"):
            sec.append("lights")
        if st.get("coil"):
            sec.append("coils")
        if st.get("mark"):
            sec.append("events")
        if st.get("child"):
            sec.append("shows")
        steps.append({"ms": st["ms"], "lights": st.get("lights") or [], "coil": st.get("coil"),
                      "mark": st.get("mark"), "child": st.get("child"), "sections": sec})
    return steps


def align(t, sync_ms):
    """Acceptable sync-aligned start instants for a request at t: next multiple of the sync interval; when t is
    itself (within tolerance) a multiple both that instant and the following one are accepted."""
    s = sync_ms / 1000.0
    k = int(t / s)
    cands = []
    for m in (k - 1, k, k + 1, k + 2):
        x = m * s
        if x >= t - TOL and x <= t + s + TOL:
            cands.append(x)
    return cands


class Inst:
    def __init__(self, ctx, show, steps, cfg, start_time, start_step, start_running, replaces, parent):
        self.ctx = ctx
        self.show = show
        self.steps = steps
        self.n = len(steps)
        self.cfg = cfg
        self.speed = float(cfg["speed"])
        self.manual = bool(cfg["manual_advance"])
        self.loops = int(cfg["loops"])
        self.sync_ms = int(cfg["sync_ms"] or 0)
        self.priority = int(cfg["priority"])
        self.tokens = dict(cfg["tokens"] or {})
        self.ev = cfg.get("events") or {}
        self.start_time = start_time
        self.start_step = start_step
        self.start_running = start_running
        self.replaces = replaces
        self.parent = parent
        self.state = "waiting"
        self.pos = None
        self.cur = None
        self.pend = None
        self.pend_optional = False
        self.anchor = None
        self.acc_ms = 0
        self.paused = False
        self.paused_rem = None
        self.fuzzy = False
        self.lenient = False
        self.exp = None
        self.expect_self_stop = None
        self.req_after_stop = False
        self.req_after_stop_at = None
        self.resumed_running = False
        self.resumed_running_at = None
        self.t_stop = None
        self.t_stop_base = None
        self.stop_kind = None
        self.execs = 0
        self.max_loop = 0
        self.tentative = None
        self.any_idx_once = False
        self.completion_T = None
        self.after_stop_reported = set()
        self.flagged = False        # a violation was attributed to this instance (later anomalies are consequences)


class Model:
    def __init__(self, shows, report, mode_priority=0, default_sync_ms=0):
        self.default_sync_ms = int(default_sync_ms or 0)     # machine-wide `mpf: default_show_sync_ms`
        self.play_hint = None           # harness: {"sync_ms": explicit or None} of the play request being posted
        self.shows = {name: model_steps(s) for name, s in shows.items()}
        self.report = report            # report(clause, sig, **detail)
        self.inst = {}
        self.frames = []
        self.exp_events = []            # [name, T, ctx, optional]
        self.obs_events = []            # [name, base, true]
        self.clauses = {"step_time": 0, "step_index": 0, "step_effects": 0, "no_step_after_stop": 0,
                        "start_time": 0, "completion": 0, "stop_explained": 0, "immediate_step": 0,
                        "step_not_missed": 0, "light_start_time": 0, "sync_effective": 0, "sync_zero_on_grid": 0}
        self.obs = {"steps_seen": 0, "instances": 0, "timer_steps": 0, "immediate_steps": 0, "loops_seen": 0,
                    "completions": 0, "fuzzy_instances": 0, "requests": 0, "max_loop_index": 0,
                    "silent_steps": 0, "sync_starts": 0, "coincident_ops": 0, "req_on_stopped": 0,
                    "resume_while_running": 0}
        self.cur_step = None            # (ctx, idx, section, T, colors[], coils[])
        self.dirty_variants = set()     # event names whose expectation is unreliable (fuzzy instances)

    # -- helpers ------------------------------------------------------------------------------
    def root_sig(self, inst, own=True, at=None):
        """Signature of a known re-run mechanism whose trigger was seen (not later than `at`) on this instance or
        on the show that started it (a re-run parent re-plays its child shows), else ''.  With both triggers
        present the more recent one is named."""
        n = 0
        cur = inst if own else (self.inst.get(inst.parent) if inst.parent else None)
        while cur is not None and n < 10:
            n += 1
            d16 = cur.req_after_stop_at if cur.req_after_stop and (at is None or cur.req_after_stop_at <= at + TOL) \
                else None
            fork = cur.resumed_running_at if cur.resumed_running and \
                (at is None or cur.resumed_running_at <= at + TOL) else None
            if d16 is not None and (fork is None or d16 >= fork):
                return SIG_D16
            if fork is not None:
                return SIG_FORK
            cur = self.inst.get(cur.parent) if cur.parent else None
        return ""

    def attr_sig(self, inst, default_sig, attrib="stop", at=None):
        if inst is None or attrib is None:
            return default_sig
        if attrib == "stop":
            return self.root_sig(inst, at=at) or default_sig
        # schedule anomaly of a live show
        if inst.resumed_running:
            return SIG_FORK
        return self.root_sig(inst, own=False, at=at) or default_sig

    def V(self, inst, clause, default_sig, attrib="sched", **detail):
        """attrib='stop': anomaly after the show stopped; 'sched': schedule anomaly of a live show (both are
        attributed to a known re-run mechanism if its trigger was seen on the instance or its parent);
        None: never attributed (wrong effects)."""
        sig = self.attr_sig(inst, default_sig, attrib, at=detail.get("t"))
        if inst is not None:
            detail.setdefault("ctx", inst.ctx)
            detail.setdefault("show", inst.show)
            if inst.flagged and sig == default_sig:
                return              # consequence of an already reported anomaly of this instance
            inst.flagged = True
            self._make_fuzzy(inst)
        self.report(clause, sig, **detail)

    def _make_fuzzy(self, inst):
        if not inst.fuzzy:
            inst.fuzzy = True
            self.obs["fuzzy_instances"] += 1
        inst.exp = None
        inst.tentative = None
        for name in inst.ev.values():
            if name:
                self.dirty_variants.add(name)
        for st in inst.steps:
            if st["mark"]:
                self.dirty_variants.add(st["mark"])

    def _emit(self, inst, kind, T, optional=False):
        name = inst.ev.get(kind)
        if name:
            self.exp_events.append([name, T, inst.ctx, optional])

    def _emit_mark(self, inst, name, T):
        self.exp_events.append([name, T, inst.ctx, False])

    # -- the show semantics -------------------------------------------------------------------
    def _peek(self, inst):
        """What the next run of the show would do: ('complete',) or ('step', idx)."""
        pos = inst.pos
        if pos < 0:
            pos %= inst.n
        if pos >= inst.n:
            if inst.loops == 0:
                return ("complete",)
            pos = 0
        return ("step", pos)

    def _run(self, inst, T, pause_after=False, pre=()):
        if inst.pos < 0:
            inst.pos %= inst.n
        evs = list(pre)
        if inst.pos >= inst.n:
            if inst.loops != 0:
                if inst.loops > 0:
                    inst.loops -= 1
                inst.pos = 0
                evs.append("looped")
                inst.max_loop += 1
                self.obs["loops_seen"] += 1
                self.obs["max_loop_index"] = max(self.obs["max_loop_index"], inst.max_loop)
            else:
                inst.expect_self_stop = T
                inst.completion_T = T
                inst.pend = None
                for k in evs:
                    self._emit(inst, k, T)
                self._emit(inst, "completed", T)
                return "completed"
        inst.cur = inst.pos
        st = inst.steps[inst.cur]
        inst.execs += 1
        if st["sections"]:
            inst.exp = {"idx": inst.cur, "T": T, "todo": set(st["sections"]), "seen": set()}
        else:
            inst.exp = None
            self.obs["silent_steps"] += 1
        for k in evs:
            self._emit(inst, k, T)
        if st["mark"]:
            self._emit_mark(inst, st["mark"], T)
        inst.pos += 1
        ms = st["ms"]
        if not inst.manual and ms > 0 and not pause_after:
            inst.acc_ms += ms
            inst.pend = [inst.anchor + inst.acc_ms / 1000.0 / inst.speed]
            inst.pend_optional = False
        else:
            inst.pend = None
        return "step"

    def _start(self, inst, T):
        inst.state = "live"
        inst.anchor = T
        inst.acc_ms = 0
        inst.pend = None
        return self._run(inst, T, pause_after=not inst.start_running, pre=("played",))

    def _finalize_exp(self, inst, where):
        """An executed step must have played every section it has."""
        e = inst.exp
        inst.exp = None
        if e is None or inst.fuzzy:
            return
        self.clauses["immediate_step"] += 1
        if not e["seen"]:
            self.V(inst, "immediate_step", "C17:step_not_executed", idx=e["idx"], T=e["T"], where=where)
        elif e["todo"]:
            self.V(inst, "step_effects", "C17:step_section_not_played", idx=e["idx"], missing=sorted(e["todo"]))

    def _catch_up(self, inst, base, true, at_request=False):
        """Apply runs that have certainly happened without leaving a trace (steps without any section); report
        runs that are overdue and should have left one."""
        guard = 0
        while inst.state != "stopped" and inst.pend and not inst.fuzzy and guard < 100000:
            guard += 1
            last = max(inst.pend)
            first = min(inst.pend)
            if inst.state == "waiting":
                nxt = ("start",)
                p0 = inst.pos % inst.n if inst.pos < 0 else inst.pos
                silent = p0 < inst.n and not inst.steps[p0]["sections"]
            else:
                nxt = self._peek(inst)
                silent = nxt[0] == "step" and not inst.steps[nxt[1]]["sections"]
            if silent and len(inst.pend) == 1 and first < base + RES:
                self._finalize_exp(inst, "catch_up")
                if inst.state == "waiting":
                    self._start(inst, first)
                else:
                    self._run(inst, first)
                continue
            if last < base - TOL:
                if inst.pend_optional:
                    inst.pend = None
                    inst.pend_optional = False
                    if silent:
                        inst.lenient = True     # cannot tell whether the untraceable optional run happened
                    break
                if silent:      # several candidates for an untraceable run
                    self._make_fuzzy(inst)
                    break
                self.clauses["step_not_missed"] += 1
                self.V(inst, "step_not_missed",
                       "C17:show_did_not_complete" if nxt[0] == "complete" else
                       "C17:show_did_not_start" if nxt[0] == "start" else "C17:step_missed",
                       due=inst.pend, now=base, next=list(nxt))
                break
            if silent and at_request and first <= true + TOL:
                # untraceable run that may or may not have happened before this request (latency window)
                self._make_fuzzy(inst)
            break

    # -- log entries --------------------------------------------------------------------------
    def process(self, entries):
        for e in entries:
            getattr(self, "_on_" + e[0])(*e[1:])

    def _on_op(self, base, true, opid, kind, allowed):
        self.frames.append(("op", opid, kind, set(allowed)))

    def _on_op_end(self, base, true, opid):
        self._pop("op")

    def _pop(self, typ):
        for i in range(len(self.frames) - 1, -1, -1):
            if self.frames[i][0] == typ:
                del self.frames[i]
                return

    def _on_create(self, base, true, ctx, show, cfg, start_time, start_step, start_running, replaces):
        parent = None
        for f in reversed(self.frames):
            if f[0] == "step":
                parent = f[1]
                break
        inst = Inst(ctx, show, self.shows[show], cfg, start_time, start_step, start_running, replaces, parent)
        self.inst[ctx] = inst
        self.obs["instances"] += 1
        self.frames.append(("create", ctx))
        # effective sync interval: the explicit sync_ms of the request if it has one (0 = start immediately),
        # else the machine-wide default.  Child shows of the generated `shows:` steps never set one.
        explicit = "unknown"
        if parent is None and self.play_hint is not None:
            explicit = self.play_hint.get("sync_ms")
        elif parent is not None:
            explicit = None
        if explicit != "unknown":
            eff = int(explicit) if explicit is not None else self.default_sync_ms
            self.clauses["sync_effective"] += 1
            if explicit == 0 and self.default_sync_ms:
                self.clauses["sync_zero_on_grid"] += 1
            if inst.sync_ms != eff:
                observed = inst.sync_ms
                inst.sync_ms = eff
                self.V(inst, "sync_effective", "C17:show_sync_ms_not_honoured", attrib=None, t=base,
                       requested_sync_ms=explicit, machine_default_sync_ms=self.default_sync_ms,
                       show_config_sync_ms=observed, expected_effective=eff, start_time=start_time)
        n = inst.n
        if start_step > 0:
            inst.pos = start_step - 1
        elif start_step < 0:
            inst.pos = start_step % n
        else:
            inst.pos = 0
        if inst.sync_ms:
            inst.state = "waiting"
            inst.pend = align(start_time, inst.sync_ms)
            self.obs["sync_starts"] += 1
        else:
            self._start(inst, start_time)

    def _on_create_end(self, base, true, ctx):
        self._pop("create")
        inst = self.inst[ctx]
        if inst.state == "live":
            self._finalize_exp(inst, "create_end")

    def _in_own_frame(self, ctx):
        for f in self.frames:
            if f[0] in ("create", "req") and f[1] == ctx:
                return f
        return None

    def _on_step(self, base, true, ctx, idx, section, start_time, priority, tokens):
        inst = self.inst.get(ctx)
        self.obs["steps_seen"] += 1
        self.cur_step = None
        self.frames.append(("step", ctx, idx, section))
        if inst is None:
            self.report("step_index", "C17:step_of_unknown_show_context", ctx=ctx, idx=idx)
            return
        self.clauses["no_step_after_stop"] += 1
        if inst.state == "stopped":
            sg = self.attr_sig(inst, "C17:step_after_stop", at=base)
            if sg not in inst.after_stop_reported:
                inst.after_stop_reported.add(sg)
                inst.flagged = False
                self.V(inst, "no_step_after_stop", "C17:step_after_stop", attrib="stop", idx=idx, section=section, t=base,
                       stopped_at=inst.t_stop, stop_kind=inst.stop_kind)
            return
        if inst.fuzzy:
            return
        e = inst.exp
        if e is not None and e["idx"] == idx and section in e["todo"] and abs(start_time - e["T"]) <= TOL:
            pass        # further section of the step being executed
        else:
            own = self._in_own_frame(ctx)
            if own is None:
                if not self._timer_step(inst, idx, section, start_time, base, true):
                    return
            else:
                # inside a request/creation of this very show but not the step the request must execute
                uncertain = inst.any_idx_once or inst.lenient or \
                    (inst.tentative is not None and inst.tentative["silent"])
                if uncertain and own[0] == "req":
                    # the position of the show is not determined by what was observable: learn it from this step
                    only_first_step_back = inst.any_idx_once and not inst.lenient and \
                        not (inst.tentative is not None and inst.tentative["silent"])
                    inst.tentative = None
                    self._resync(inst, idx, start_time, loops_uncertain=not only_first_step_back)
                    if inst.fuzzy:
                        return
                else:
                    self.clauses["step_index"] += 1
                    self.V(inst, "step_index", "C17:request_executed_wrong_step", idx=idx, section=section,
                           expected=(e["idx"] if e else None), start_time=start_time,
                           expected_T=(e["T"] if e else None), request=own[2] if own[0] == "req" else "play")
                    return
            e = inst.exp
            if e is None:
                return
        inst.any_idx_once = False
        if not e["seen"]:
            if self._in_own_frame(ctx) is not None:
                self.obs["immediate_steps"] += 1
                self.clauses["step_time"] += 1
                self.clauses["step_index"] += 1
        e["todo"].discard(section)
        e["seen"].add(section)
        st = inst.steps[idx]
        self.clauses["step_effects"] += 1
        if priority != inst.priority or dict(tokens or {}) != inst.tokens:
            self.V(inst, "step_effects", "C17:step_played_with_wrong_priority_or_tokens", attrib=None, idx=idx,
                   priority=priority, tokens=tokens, expected_priority=inst.priority, expected_tokens=inst.tokens)
            return
        self.cur_step = {"ctx": ctx, "idx": idx, "section": section, "T": e["T"], "colors": [], "coils": [],
                         "inst": inst, "st": st}

    def _resync(self, inst, idx, start_time, loops_uncertain=True):
        """Take position and schedule from an observed step.  If untraceable runs may lie in between, a show with a
        finite number of loops left may have used one up without trace: its end (loop again / complete) can no
        longer be predicted, so it becomes indeterminate."""
        if loops_uncertain and inst.loops > 0:
            self._make_fuzzy(inst)
        inst.lenient = False
        inst.cur = idx
        inst.pos = idx
        inst.anchor = start_time
        inst.acc_ms = 0
        inst.paused = False
        was_optional = True
        self._run(inst, start_time)
        # do not expect loop/marker events of a step we only learnt about by observation: mark unreliable
        inst.pend_optional = was_optional and inst.pend is not None
        for name in inst.ev.values():
            if name:
                self.dirty_variants.add(name)
        for st in inst.steps:
            if st["mark"]:
                self.dirty_variants.add(st["mark"])

    def _silent_chain(self, inst, idx, start_time):
        snap = self._snapshot(inst)
        for c in list(snap["pend"]):
            self._restore(inst, snap)
            inst.anchor = c
            inst.acc_ms = 0
            if inst.state == "waiting":
                r = self._start(inst, c)
            else:
                inst.pend = None
                r = self._run(inst, c)
            guard = 0
            while r == "step" and inst.exp is None and inst.pend and guard < inst.n + 2:
                guard += 1
                nxt = self._peek(inst)
                if nxt == ("step", idx) and inst.steps[idx]["sections"] and abs(inst.pend[0] - start_time) <= TOL:
                    return True
                if nxt[0] == "step" and not inst.steps[nxt[1]]["sections"] and inst.pend[0] < start_time - TOL:
                    r = self._run(inst, inst.pend[0])
                else:
                    break
        self._restore(inst, snap)
        return False

    def _timer_step(self, inst, idx, section, start_time, base, true):
        """A step that no request of this show is executing: it must be the scheduled one."""
        self._finalize_exp(inst, "timer")
        self._catch_up(inst, base, true)
        if inst.fuzzy or inst.state == "stopped":
            return False
        self.obs["timer_steps"] += 1
        if not inst.pend:
            if inst.lenient:
                self._resync(inst, idx, start_time)
                return not inst.fuzzy
            self.clauses["step_time"] += 1
            self.V(inst, "step_time", "C17:unscheduled_step", idx=idx, start_time=start_time, t=base,
                   state="held", paused=inst.paused, manual=inst.manual)
            return False
        # steps without sections that were due before the observed one
        guard = 0
        while inst.state == "live" and inst.pend and len(inst.pend) == 1 and guard < 100000:
            guard += 1
            nxt = self._peek(inst)
            if nxt[0] == "step" and not inst.steps[nxt[1]]["sections"] and inst.pend[0] < start_time - TOL:
                self._run(inst, inst.pend[0])
            else:
                break
        if not inst.pend:
            self.clauses["step_time"] += 1
            self.V(inst, "step_time", "C17:unscheduled_step", idx=idx, start_time=start_time, t=base,
                   state="held2")
            return False
        if len(inst.pend) > 1:
            if inst.state == "waiting":
                p0 = inst.pos % inst.n if inst.pos < 0 else inst.pos
                silent = p0 < inst.n and not inst.steps[p0]["sections"]
            else:
                nxt = self._peek(inst)
                silent = nxt[0] == "step" and not inst.steps[nxt[1]]["sections"]
            if silent:
                # several acceptable times for a run that leaves no trace: follow each and keep the one that leads
                # to the observed step (loop count, looped/played events and the schedule stay exact)
                if not self._silent_chain(inst, idx, start_time):
                    inst.state = "live"
                    self._resync(inst, idx, start_time)
                    return not inst.fuzzy
        self.clauses["step_time"] += 1
        match = None
        mi = -1
        for k, c in enumerate(inst.pend):
            if abs(c - start_time) <= TOL:
                match = c
                mi = k
                break
        if match is None:
            self.V(inst, "step_time", "C17:step_at_wrong_time", idx=idx, start_time=start_time,
                   expected=inst.pend,
                   t=base, drift=start_time - inst.pend[0], execs=inst.execs, loop=inst.max_loop)
            return False
        if not (base - TOL <= match <= true + TOL):
            self.V(inst, "step_time", "C17:step_fired_at_wrong_instant", idx=idx, scheduled=match,
                   base=base,
                   true=true)
            return False
        if mi != 0 or len(inst.pend) > 1:
            inst.anchor = match
            inst.acc_ms = 0
            rebased = True
        else:
            rebased = False
        if inst.state == "waiting":
            self.clauses["start_time"] += 1
            r = self._start(inst, match)
        else:
            if rebased:
                inst.pend = None
            else:
                # keep anchor/acc: T == anchor + acc/speed
                pass
            r = self._run(inst, match)
        self.clauses["step_index"] += 1
        if r == "completed":
            inst.expect_self_stop = None
            self.V(inst, "step_index", "C17:show_ran_past_its_last_loop", idx=idx, start_time=start_time)
            return False
        if inst.exp is None or inst.exp["idx"] != idx:
            self.V(inst, "step_index", "C17:wrong_step_executed", idx=idx, expected=inst.cur, start_time=start_time,
                   loops_left=inst.loops)
            return False
        return True

    def _on_step_end(self, base, true, ctx, idx, section):
        self._pop("step")
        cs = self.cur_step
        self.cur_step = None
        if cs is None or cs["ctx"] != ctx or cs["idx"] != idx or cs["section"] != section:
            return
        inst = cs["inst"]
        if inst.fuzzy:
            return
        st = cs["st"]
        if section == "lights":
            exp = expected_colors(st["lights"], inst.tokens, inst.priority)
            got = {}
            for c in cs["colors"]:
                got.setdefault(c[0], []).append((c[1], c[2], c[3]))
            self.clauses["step_effects"] += 1
            bad = sorted(set(exp) ^ set(got))
            for lt in got:
                if lt in exp and (len(got[lt]) != 1 or got[lt][0] not in exp[lt]):
                    bad.append(lt)
            if bad:
                self.V(inst, "step_effects", "C17:step_sent_wrong_light_commands", attrib=None, idx=idx, lights=bad,
                       got={k: got[k] for k in sorted(got)}, expected={k: exp[k] for k in sorted(exp)},
                       tokens=inst.tokens)
                return
            for c in cs["colors"]:
                self.clauses["light_start_time"] += 1
                if c[4] != ctx + ".light_player" or c[5] is None or abs(c[5] - cs["T"]) > TOL:
                    self.V(inst, "light_start_time", "C17:light_command_with_wrong_key_or_start_time", attrib=None, idx=idx,
                           key=c[4], start_time=c[5], expected_T=cs["T"])
                    return
        elif section == "coils":
            exp = [tuple(st["coil"])]
            self.clauses["step_effects"] += 1
            if cs["coils"] != exp:
                self.V(inst, "step_effects", "C17:step_sent_wrong_coil_commands", attrib=None, idx=idx, got=cs["coils"],
                       expected=exp)

    def _on_color(self, base, true, light, color, fade, priority, key, start_time):
        ctx = key.split(".")[0]
        inst = self.inst.get(ctx)
        cs = self.cur_step
        if cs is not None and cs["ctx"] == ctx and cs["section"] == "lights":
            cs["colors"].append((light, color, fade, priority, key, start_time))
            return
        if inst is None or inst.fuzzy:
            return
        self.clauses["no_step_after_stop"] += 1
        if inst.state == "stopped":
            sg = self.attr_sig(inst, "C17:step_after_stop", at=base)
            if sg not in inst.after_stop_reported:
                inst.after_stop_reported.add(sg)
                inst.flagged = False
                self.V(inst, "no_step_after_stop", "C17:light_command_after_stop", attrib="stop", light=light,
                       key=key, t=base)

    def _on_coil(self, base, true, coil, action):
        cs = self.cur_step
        if cs is not None and cs["section"] == "coils":
            cs["coils"].append((coil, action))

    def _on_event(self, base, true, name):
        self.obs_events.append([name, base, true])

    def _on_tick(self, base, true):
        for inst in self.inst.values():
            if inst.state != "stopped" and not inst.fuzzy:
                if inst.state == "live" and not self._in_own_frame(inst.ctx):
                    pass
                self._catch_up(inst, base, true)
            if inst.expect_self_stop is not None and not inst.fuzzy and inst.state != "stopped":
                self.clauses["completion"] += 1
                self.V(inst, "completion", "C17:show_did_not_stop_at_completion", T=inst.expect_self_stop, now=base)

    # -- requests -----------------------------------------------------------------------------
    def _explain_stop(self, inst, base, true):
        if inst.expect_self_stop is not None:
            inst.expect_self_stop = None
            return "completed"
        # a scheduled run that is due now and ends the show
        if inst.state == "live" and inst.pend and not inst.fuzzy and not self._in_own_frame_other_than_stop(inst.ctx):
            self._catch_up(inst, base, true)
            if inst.pend and self._peek(inst)[0] == "complete":
                for c in inst.pend:
                    if base - TOL <= c <= true + TOL:
                        by_op = self._stop_allowed_by_frames(inst) or self._replaced_now(inst, base, true)
                        self._finalize_exp(inst, "completion")
                        self._run(inst, c)
                        inst.expect_self_stop = None
                        if by_op:
                            # a stop request / replacement in the same instant: either may have come first
                            for ev in self.exp_events:
                                if ev[2] == inst.ctx and ev[0] == inst.ev.get("completed") and ev[1] == c:
                                    ev[3] = True
                        return "completed"
        if self._stop_allowed_by_frames(inst):
            return "requested"
        if self._replaced_now(inst, base, true):
            return "replaced"
        return None

    def _replaced_now(self, inst, base, true):
        """A show started 'in sync' on the same key stops this one at its own start instant."""
        for other in self.inst.values():
            if other.replaces == inst.ctx and other.state == "waiting" and other.pend:
                for c in other.pend:
                    if base - TOL <= c <= true + TOL:
                        return True
        return False

    def _in_own_frame_other_than_stop(self, ctx):
        for f in self.frames[:-1]:
            if f[0] in ("create", "req") and f[1] == ctx:
                return True
        return False

    def _stop_allowed_by_frames(self, inst):
        for f in self.frames:
            if f[0] == "step" and inst.parent is not None and f[1] == inst.parent and f[3] == "shows":
                return True     # the parent's step (re)plays its child show: keep/advance/replace all accepted
            if f[0] == "op" and inst.ctx in f[3]:
                return True
            if f[0] == "req" and f[2] == "stop" and f[1] != inst.ctx:
                other = self.inst.get(f[1])
                if other is not None and (other.replaces == inst.ctx or inst.parent == other.ctx):
                    return True
            if f[0] == "op" and inst.parent is not None:
                p = self.inst.get(inst.parent)
                while p is not None:
                    if p.ctx in f[3]:
                        return True
                    p = self.inst.get(p.parent) if p.parent else None
        return False

    def _on_req(self, base, true, ctx, kind, kwargs):
        inst = self.inst.get(ctx)
        self.frames.append(("req", ctx, kind))
        self.obs["requests"] += 1
        if inst is None:
            return
        if inst.state == "stopped":
            if kind != "stop":
                if not inst.req_after_stop:
                    inst.req_after_stop_at = base
                inst.req_after_stop = True
                self.obs["req_on_stopped"] += 1
            return
        if kind == "stop":
            self.clauses["stop_explained"] += 1
            if not inst.fuzzy and inst.pend:
                by_frames = self._stop_allowed_by_frames(inst)
                if inst.state == "waiting":
                    p0 = inst.pos % inst.n if inst.pos < 0 else inst.pos
                    silent = p0 < inst.n and not inst.steps[p0]["sections"]
                else:
                    nx = self._peek(inst)
                    silent = nx[0] == "step" and not inst.steps[nx[1]]["sections"]
                in_op = any(f[0] == "op" for f in self.frames)
                del by_frames
                if silent and not in_op and any(base - TOL <= c <= true + TOL for c in inst.pend):
                    # an untraceable run is due in the very instant another timer stops the show: order unknown
                    self._make_fuzzy(inst)
                else:
                    self._catch_up(inst, base, true, at_request=True)
            why = None if inst.fuzzy else self._explain_stop(inst, base, true)
            if inst.fuzzy:
                why = "fuzzy"
            if why is None:
                self.V(inst, "stop_explained", "C17:show_stopped_without_request_or_completion", t=base,
                       pend=inst.pend, pos=inst.pos, loops_left=inst.loops)
                why = "unexplained"
            if why == "completed":
                self.obs["completions"] += 1
                self.clauses["completion"] += 1
                T = inst.completion_T if inst.completion_T is not None else true
            else:
                self._finalize_exp(inst, "stop")
                T = true
            inst.state = "stopped"
            inst.stop_kind = why
            inst.t_stop = true
            inst.t_stop_base = base
            inst.pend = None
            inst.exp = None
            inst.tentative = None
            if not inst.fuzzy:
                self._emit(inst, "stopped", T)
            return
        if inst.fuzzy:
            if kind == "resume":
                # indeterminate instance: whether a step was pending is unknown; a later step after stop is then
                # attributed to the only request that can leave a second schedule behind
                if not inst.resumed_running:
                    inst.resumed_running_at = base
                inst.resumed_running = True
            return
        if inst.state == "waiting":
            # control request before the (synchronised) start: the statement is silent on what it does
            if kind == "resume" and inst.pend:
                if not inst.resumed_running:
                    inst.resumed_running_at = base
                inst.resumed_running = True
                self.obs["resume_while_running"] += 1
            self._make_fuzzy(inst)
            return
        self._finalize_exp(inst, "request")
        self._catch_up(inst, base, true, at_request=True)
        if inst.fuzzy or inst.state == "stopped":
            if kind == "resume" and inst.fuzzy:
                if not inst.resumed_running:
                    inst.resumed_running_at = base
                inst.resumed_running = True
            return
        if inst.pend and any(abs(c - base) <= TOL or base - TOL <= c <= true + TOL for c in inst.pend):
            self.obs["coincident_ops"] += 1
        T = true
        if kind == "pause":
            if inst.pend:
                inst.paused_rem = inst.pend[0] - T
                inst.paused = True
            elif not inst.paused:
                inst.paused_rem = None
                inst.paused = True
            inst.pend = None
        elif kind == "advance":
            was_paused = inst.paused
            inst.paused = False
            inst.anchor = T
            inst.acc_ms = 0
            inst.pend = None
            if kwargs.get("steps", 1) != 1:
                inst.pos += kwargs["steps"] - 1
            elif kwargs.get("show_step") is not None:
                inst.pos = kwargs["show_step"] - 1
            self._run(inst, T)
            if was_paused and inst.pend:
                inst.pend_optional = True
        elif kind == "step_back":
            if inst.cur == 0 or inst.cur is None:
                inst.any_idx_once = True     # stepping back from the first step: statement silent, MPF wraps
            inst.paused = False
            inst.anchor = T
            inst.acc_ms = 0
            inst.pend = None
            inst.pos -= kwargs.get("steps", 1) + 1
            self._run(inst, T)
        elif kind == "resume":
            snap = self._snapshot(inst)
            running = bool(inst.pend)
            if running or inst.lenient:
                # (lenient: whether a step is still scheduled is not known from what was observable)
                if not inst.resumed_running:
                    inst.resumed_running_at = base
                inst.resumed_running = True
                self.obs["resume_while_running"] += 1
            inst.paused = False
            inst.anchor = T
            inst.acc_ms = 0
            inst.pend = None
            r = self._run(inst, T)
            inst.tentative = {"snap": snap, "running": running, "T": T, "r": r,
                              "silent": r == "step" and inst.exp is None}
        elif kind == "update":
            new_speed = kwargs.get("speed")
            new_manual = kwargs.get("manual_advance")
            old = inst.speed
            if new_speed is not None:
                inst.speed = float(new_speed)
            if new_manual is not None:
                if inst.manual and not new_manual and not inst.pend:
                    inst.lenient = True      # statement silent on whether the show resumes by itself
                inst.manual = bool(new_manual)
            if inst.pend:
                t_old = inst.pend[0]
                alt = T + (t_old - T) * old / inst.speed
                inst.pend = [t_old] + ([alt] if abs(alt - t_old) > TOL else [])
                inst.anchor = t_old
                inst.acc_ms = 0

    def _snapshot(self, inst):
        d = {}
        for k in ("state", "pos", "cur", "loops", "pend", "pend_optional", "anchor", "acc_ms", "paused", "paused_rem",
                  "expect_self_stop", "completion_T", "execs", "max_loop"):
            d[k] = copy.copy(getattr(inst, k))
        d["n_events"] = len(self.exp_events)
        return d

    def _restore(self, inst, snap):
        for k, v in snap.items():
            if k != "n_events":
                setattr(inst, k, v)
        del self.exp_events[snap["n_events"]:]
        inst.exp = None

    def _on_req_end(self, base, true, ctx, kind):
        self._pop("req")
        inst = self.inst.get(ctx)
        if inst is None or inst.fuzzy or inst.state == "stopped":
            if inst is not None and inst.state == "stopped":
                inst.tentative = None
            return
        if kind == "resume" and inst.tentative is not None:
            t = inst.tentative
            inst.tentative = None
            if t["silent"]:
                self._make_fuzzy(inst)      # cannot tell whether the untraceable step was run
                return
            happened = (inst.exp is not None and inst.exp["seen"]) if t["r"] == "step" else False
            if t["r"] == "completed":
                happened = inst.state == "stopped"
            if happened:
                self._finalize_exp(inst, "resume")
                return
            # resume did not execute a step: accepted; the schedule continues
            self._restore(inst, t["snap"])
            inst.paused = False
            if not t["running"]:
                if inst.paused_rem is not None:
                    inst.pend = [t["T"] + inst.paused_rem]
                    inst.anchor = inst.pend[0]
                    inst.acc_ms = 0
                else:
                    inst.lenient = True
            return
        if kind in ("advance", "step_back"):
            if inst.expect_self_stop is not None:
                self.clauses["completion"] += 1
                self.V(inst, "completion", "C17:show_did_not_stop_at_completion", T=inst.expect_self_stop, request=kind)
                return
            self._finalize_exp(inst, kind)

    # -- end of case ----------------------------------------------------------------------------
    def event_owner_sig(self, name, t=None):
        """Known mechanism signature if an instance that can post `name` (or its parent) carried its trigger by
        the time `t` of the anomaly."""
        found = set()
        for inst in self.inst.values():
            owns = name in [v for v in inst.ev.values() if v] or any(st["mark"] == name for st in inst.steps)
            if owns:
                sg = self.root_sig(inst, at=t)
                if sg:
                    found.add(sg)
        if SIG_D16 in found and SIG_FORK in found:
            # both mechanisms were triggered on shows that post this event: name the one triggered last before t
            best = None
            for inst in self.inst.values():
                owns = name in [v for v in inst.ev.values() if v] or any(st["mark"] == name for st in inst.steps)
                if not owns:
                    continue
                for ts, sg in ((inst.req_after_stop_at, SIG_D16), (inst.resumed_running_at, SIG_FORK)):
                    if ts is not None and (t is None or ts <= t + TOL) and (best is None or ts >= best[0]):
                        best = (ts, sg)
            return best[1] if best else SIG_D16
        return sorted(found)[0] if found else ""

    def match_events(self):
        """Multiset comparison of expected and observed event posts per name and instant."""
        res = {"evaluated": 0, "missing": [], "unexpected": []}
        names = set(e[0] for e in self.exp_events) | set(e[0] for e in self.obs_events)
        for name in sorted(names):
            if name in self.dirty_variants:
                continue
            exp = sorted([e for e in self.exp_events if e[0] == name], key=lambda e: e[1])
            obs = sorted([e for e in self.obs_events if e[0] == name], key=lambda e: e[1])
            used = [False] * len(obs)
            j0 = 0
            for e in exp:
                res["evaluated"] += 1
                while j0 < len(obs) and (used[j0] or obs[j0][2] + TOL < e[1] - 1.0):
                    j0 += 1
                hit = None
                i = j0
                while i < len(obs) and obs[i][1] - TOL <= e[1] + 1.0:
                    o = obs[i]
                    if not used[i] and o[1] - TOL <= e[1] <= o[2] + TOL:
                        hit = i
                        break
                    i += 1
                if hit is None:
                    if not e[3]:
                        res["missing"].append({"event": name, "T": e[1], "ctx": e[2]})
                else:
                    used[hit] = True
            for i, o in enumerate(obs):
                if not used[i]:
                    res["evaluated"] += 1
                    res["unexpected"].append({"event": name, "t": o[1]})
        return res
