"""C18 reference model: counter / accrual / sequence logic blocks as small state machines.

Pure Python, no mpf import.  The model is *set valued*: where the property statement is silent or an
operation coincides exactly with a timer instant, a state forks into every permitted successor and the
observation prunes the set.  A violation is "no permitted successor explains what was observed".

Times are float seconds (the loop's virtual time).  A timer with deadline d is computed exactly like the code
under test does (t + ms / 1000.0) and compared with a tolerance EPS.
"""

EPS = 2e-6
MAX_CANDS = 96


def ev_list(v):
    if v is None:
        return []
    if isinstance(v, str):
        return [x.strip() for x in v.split(",") if x.strip()]
    return list(v)


class Spec:
    """Static description of one block, derived from the abstract block dict of a case."""

    def __init__(self, b):
        self.b = b
        self.name = b["name"]
        self.type = b["type"]
        self.W = (b.get("window") or 0) / 1000.0 if self.type == "counter" else 0.0
        self.T = (b.get("timeout") or 0) / 1000.0
        self.roc = bool(b.get("roc", True))
        self.doc = bool(b.get("doc", True))
        self.persist = bool(b.get("persist", False))
        self.timeout_event = self.name + "_timeout"
        if b.get("hit_events"):
            self.hit_events = list(b["hit_events"])
        elif self.type == "counter":
            self.hit_events = ["counter_%s_hit" % self.name, "logicblock_%s_hit" % self.name]
        else:
            self.hit_events = ["logicblock_%s_hit" % self.name]
        self.complete_events = list(b.get("complete_events") or ["logicblock_%s_complete" % self.name])
        # external event -> list of (role, arg, delay_s); one role per event.  delay_s > 0: delayed control event
        # (`count_events: {ev: 500ms}`), each posted event is applied on its own `delay` after it was posted
        self.roles = {}
        delays = b.get("delays") or {}
        for role, evs in (b.get("ev") or {}).items():
            for e in evs:
                self.roles.setdefault(e, []).append((role, None, (delays.get(e) or 0) / 1000.0))
        if self.type == "counter":
            self.direction = b.get("dir", "up")
            hv = b.get("interval", 1)
            if (self.direction == "down" and hv > 0) or (self.direction == "up" and hv < 0):
                hv = -hv
            self.hv = hv
            self.start = b.get("start", 0)
            self.goal = b.get("goal")
            for action, e, v in (b.get("ctrl") or []):
                self.roles.setdefault(e, []).append((action, v, 0.0))
        else:
            self.steps = [list(s) for s in b["steps"]]
            self.n = len(self.steps)
            seen = set()
            for s in self.steps:
                for e in s:
                    if e not in seen:
                        seen.add(e)
                        self.roles.setdefault(e, []).append(("step", None, 0.0))
        self.out_events = set(self.hit_events) | set(self.complete_events) | {self.timeout_event}

    def start_value(self):
        if self.type == "counter":
            return self.start
        if self.type == "accrual":
            return tuple([False] * self.n)
        return 0

    def steps_with(self, e):
        return [i for i, s in enumerate(self.steps) if e in s]

    def goal_reached(self, v):
        if self.goal is None:
            return False
        return v >= self.goal if self.direction == "up" else v <= self.goal


class St:
    __slots__ = ("alive", "enabled", "completed", "value", "win", "tmo", "out", "notes", "init_en", "saved",
                 "stale_win", "stale_tmo", "restored", "pend")

    def __init__(self):
        self.alive = False
        self.enabled = False
        self.completed = False
        self.value = None
        self.win = None
        self.tmo = None
        self.out = []
        self.notes = []
        self.init_en = None
        self.saved = {}
        self.stale_win = None
        self.stale_tmo = None
        self.restored = None
        self.pend = ()       # pending delayed control events: tuple of (deadline, role, arg, event)

    def copy(self):
        c = St()
        for k in St.__slots__:
            setattr(c, k, getattr(self, k))
        c.out = list(self.out)
        c.notes = list(self.notes)
        c.saved = dict(self.saved)
        return c

    def key(self):
        return (self.alive, self.enabled, self.completed, self.value, self.win, self.tmo, tuple(self.out),
                self.init_en, tuple(sorted(self.saved.items())), self.stale_win, self.stale_tmo,
                tuple(sorted(self.pend, key=repr)))

    def public(self):
        return {"alive": self.alive, "enabled": self.enabled, "completed": self.completed,
                "value": list(self.value) if isinstance(self.value, tuple) else self.value,
                "window_until": self.win, "timeout_at": self.tmo,
                "pending_delayed": [[p[0], p[1], p[3]] for p in self.pend]}


def _flat(states, fn):
    out = []
    for s in states:
        out.extend(fn(s))
    return out


# ------------------------------------------------------------------------------------------- primitive actions
def m_reset(sp, s, t, from_timer=False):
    s.completed = False
    s.value = sp.start_value()
    if not sp.T:
        return [s]
    if s.enabled or from_timer:
        s.tmo = t + sp.T
        return [s]
    # reset of a disabled block: the statement does not say whether the timeout clock runs -> both
    s2 = s.copy()
    s.tmo = t + sp.T
    s2.notes.append("fork_reset_disabled")
    return [s, s2]


def m_enable(sp, s, t):
    was = s.enabled
    s.enabled = True
    if not sp.T:
        return [s]
    if was:
        # enabling an enabled block: restarting the timeout clock or leaving it alone are both permitted
        s2 = s.copy()
        s.tmo = t + sp.T
        s2.notes.append("fork_enable_enabled")
        return [s, s2]
    s.tmo = t + sp.T
    s.notes.append("timer_armed")
    return [s]


def m_disable(sp, s, t):
    s.enabled = False
    if s.tmo is not None:
        s.notes.append("timer_cancelled")
    s.tmo = None
    return [s]


def m_complete(sp, s, t):
    if s.completed:
        s.notes.append("complete_suppressed")
        return [s]
    s.completed = True
    if s.tmo is not None:
        s.notes.append("timer_cancelled")
    s.tmo = None
    for e in sp.complete_events:
        s.out.append((t, e, None))
    s.notes.append("completed")
    sts = [s]
    if sp.roc:
        sts = _flat(sts, lambda x: m_reset(sp, x, t))
    if sp.doc:
        sts = _flat(sts, lambda x: m_disable(sp, x, t))
    return sts


# ------------------------------------------------------------------------------------------- operations
def m_count(sp, s, t):
    if not s.alive:
        s.notes.append("hit_not_alive")
        return [s]
    if not s.enabled:
        s.notes.append("hit_rejected_disabled")
        return [s]
    if s.win is not None:
        s.notes.append("hit_rejected_window")
        return [s]
    if s.completed:
        s.notes.append("hit_while_completed")
    s.value += sp.hv
    for e in sp.hit_events:
        s.out.append((t, e, ("count", s.value)))
    s.notes.append("hit_accepted")
    sts = [s]
    if sp.goal_reached(s.value):
        sts = m_complete(sp, s, t)
    if sp.W:
        for x in sts:
            x.win = t + sp.W
    return sts


def m_ctrl(sp, s, t, action, v):
    if not s.alive:
        s.notes.append("ctrl_not_alive")
        return [s]

    def apply(x):
        if action == "add":
            x.value += v
        elif action == "subtract":
            x.value -= v
        else:
            x.value = v
        x.notes.append("ctrl_applied")
        if sp.goal_reached(x.value):
            return m_complete(sp, x, t)
        return [x]

    if s.enabled:
        return apply(s)
    s2 = s.copy()      # control event on a disabled counter: statement silent -> applied or ignored
    s2.notes.append("fork_ctrl_disabled")
    return apply(s) + [s2]


def _acc_hit(sp, s, t, i):
    if not s.alive:
        s.notes.append("hit_not_alive")
        return [s]
    if not s.enabled:
        s.notes.append("hit_rejected_disabled")
        return [s]
    if not s.value[i]:
        v = list(s.value)
        v[i] = True
        s.value = tuple(v)
        for e in sp.hit_events:
            s.out.append((t, e, ("step", i)))
        s.notes.append("hit_accepted")
    else:
        s.notes.append("hit_rejected_repeat")
    if all(s.value):
        return m_complete(sp, s, t)
    return [s]


def m_acc_event(sp, s, t, e):
    sts = [s]
    for i in sp.steps_with(e):
        sts = _flat(sts, lambda x, i=i: _acc_hit(sp, x, t, i))
    return sts


def m_acc_random(sp, s, t):
    if not s.alive or not s.enabled:
        s.notes.append("hit_rejected_disabled" if s.alive else "hit_not_alive")
        return [s]
    free = [i for i, v in enumerate(s.value) if not v]
    if not free:
        s.notes.append("hit_rejected_repeat")
        return [s]
    out = []
    for i in free:
        out.extend(_acc_hit(sp, s.copy(), t, i))
    return out


def m_seq_event(sp, s, t, e):
    """One dispatch of event e: handlers of higher steps run first, so one event advances at most one step.

    Exception (tolerated, both accepted): the step that completes the sequence resets it to step 0 and the same
    event is also configured for step 0."""
    sts = [(s, False)]
    for i in sorted(sp.steps_with(e), reverse=True):
        new = []
        for x, wrapped in sts:
            if not x.alive:
                x.notes.append("hit_not_alive")
                new.append((x, wrapped))
                continue
            if not x.enabled:
                x.notes.append("hit_rejected_disabled")
                new.append((x, wrapped))
                continue
            if x.value != i:
                x.notes.append("hit_rejected_order")
                new.append((x, wrapped))
                continue
            if wrapped:
                x2 = x.copy()
                x2.notes.append("fork_seq_wrap")
                new.append((x2, True))
                x.notes.append("seq_wrap_double")
            x.value += 1
            for ev in sp.hit_events:
                x.out.append((t, ev, ("step", x.value)))
            x.notes.append("hit_accepted")
            if x.value >= sp.n:
                for y in m_complete(sp, x, t):
                    new.append((y, True))
            else:
                new.append((x, wrapped))
        sts = new
    return [x for x, _ in sts]


def apply_role(sp, s, t, role, arg, e):
    """Apply one control/hit role to one candidate state at time t -> list of successor states."""
    if role == "count":
        return m_count(sp, s, t)
    if role == "enable":
        return m_enable(sp, s, t) if s.alive else [s]
    if role == "disable":
        return m_disable(sp, s, t) if s.alive else [s]
    if role == "reset":
        return m_reset(sp, s, t) if s.alive else [s]
    if role == "restart":
        return _flat(m_reset(sp, s, t), lambda y: m_enable(sp, y, t)) if s.alive else [s]
    if role == "step":
        return m_acc_event(sp, s, t, e) if sp.type == "accrual" else m_seq_event(sp, s, t, e)
    if role == "random":
        return m_acc_random(sp, s, t)
    if role in ("add", "subtract", "jump"):
        return m_ctrl(sp, s, t, role, arg)
    return [s]


def apply_event(sp, s, t, e):
    """One external event posted at t -> list of successor states.

    A delayed control event is not applied now: it becomes its own pending application at t + delay (every posted
    event separately).  A mode block whose mode is not running has no handler registered: nothing is scheduled."""
    sts = [s]
    for role, arg, delay in sp.roles.get(e, ()):
        if delay > 0:
            for x in sts:
                if x.alive:
                    x.pend = x.pend + ((t + delay, role, arg, e),)
                    x.notes.append("delayed_scheduled")
                else:
                    x.notes.append("delayed_not_alive")
        else:
            sts = _flat(sts, lambda x, role=role, arg=arg: apply_role(sp, x, t, role, arg, e))
    return sts


# ------------------------------------------------------------------------------------------- timers
def _fire(sp, x, item):
    d, kind, p = item
    if kind == "win":
        x.win = None
        x.notes.append("window_closed")
        return [x]
    if kind == "tmo":
        x.out.append((d, sp.timeout_event, None))
        x.notes.append("timeout_fired")
        x.tmo = None
        return m_reset(sp, x, d, from_timer=True)
    lst = list(x.pend)
    lst.remove(p)
    x.pend = tuple(lst)
    x.notes.append("delayed_applied")
    return apply_role(sp, x, d, p[1], p[2], p[3])


class ModelOverflow(Exception):
    """Too many permitted successors: the monitor gives up on this block (never a verdict)."""


def run_timers(sp, s, t_to):
    """Fire everything of s that is due up to t_to in time order: hit-window end, timeout, delayed control events.

    Something due within EPS of t_to may or may not have fired yet; things due within EPS of each other fire in
    either order (identical delayed applications are interchangeable)."""
    done, frontier = [], [s]
    rounds = 0
    while frontier:
        rounds += 1
        if rounds > 20000:
            raise RuntimeError("c18 model: timer loop")
        nxt = []
        for x in frontier:
            items = []
            if x.alive:
                if x.win is not None:
                    items.append((x.win, "win", None))
                if x.tmo is not None:
                    items.append((x.tmo, "tmo", None))
            for p in x.pend:
                items.append((p[0], "pend", p))
            if not items:
                done.append(x)
                continue
            dmin = min(i[0] for i in items)
            if dmin > t_to + EPS:
                done.append(x)
                continue
            if dmin >= t_to - EPS:
                done.append(x.copy())      # not fired yet (fires right after the next burst)
            reps, seen = [], set()
            for i in items:
                if i[0] <= dmin + EPS:
                    k = (i[1], i[2][1:] if i[2] else None)
                    if k not in seen:
                        seen.add(k)
                        reps.append(i)
            if len(reps) > 1:
                x.notes.append("timer_tie")
            for n, it in enumerate(reps):
                y = x if n == len(reps) - 1 else x.copy()
                nxt.extend(_fire(sp, y, it))
        frontier = dedupe(nxt) if len(nxt) > 1 else nxt
        if len(frontier) + len(done) > 4 * MAX_CANDS:
            raise ModelOverflow()
    return done


# ------------------------------------------------------------------------------------------- life cycle
def m_boot(sp, tmo_peek):
    """Machine-wide block after boot: enabled or not is adopted from the first observation."""
    out = []
    for en in (True, False):
        s = St()
        s.alive = True
        s.enabled = en
        s.init_en = en
        s.value = sp.start_value()
        if en and sp.T:
            s.tmo = tmo_peek if tmo_peek is not None else sp.T
        out.append(s)
    return out


def m_mode_stop(sp, s, t, player):
    if not s.alive:
        return [s]
    if sp.persist:
        s.saved[player] = (s.enabled, s.completed, s.value)
    s.alive = False
    if s.pend:
        s.notes.append("delayed_dropped_by_mode_stop")
    s.pend = ()          # Mode.stop() clears the mode's delays: a pending delayed control event is never applied
    s.stale_win, s.stale_tmo = s.win, s.tmo
    s.win = s.tmo = None
    s.enabled = s.completed = False
    s.value = None
    return [s]


def m_mode_start(sp, s, t, player):
    if s.alive:
        return [s]
    s.alive = True
    s.restored = None
    sts = []
    if sp.persist and player in s.saved:
        s.enabled, s.completed, s.value = s.saved[player]
        s.restored = s.saved[player]
        s.notes.append("restored")
        # statement silent about the timeout clock of a restored block: none / old clock / fresh clock
        opts = [None]
        if sp.T and s.stale_tmo is not None and s.stale_tmo > t + EPS:
            opts.append(s.stale_tmo)
        if sp.T and s.enabled:
            opts.append(t + sp.T)
        for o in opts:
            c = s.copy()
            c.tmo = o
            sts.append(c)
    else:
        s.completed = False
        s.value = sp.start_value()
        s.notes.append("fresh")
        ens = [s.init_en] if s.init_en is not None else [True, False]
        for en in ens:
            c = s.copy()
            c.init_en = en
            c.enabled = en
            c.tmo = (t + sp.T) if (en and sp.T) else None
            sts.append(c)
    res = []
    for c in sts:
        res.append(c)
        if sp.W and c.stale_win is not None and c.stale_win > t + EPS:
            c2 = c.copy()        # multiple-hit window of the previous mode run still open: accepted either way
            c2.win = c.stale_win
            res.append(c2)
    for c in res:
        c.stale_win = c.stale_tmo = None
    return res


def dedupe(cands):
    seen, out = set(), []
    for c in cands:
        k = c.key()
        if k not in seen:
            seen.add(k)
            out.append(c)
    return out


def norm_events(sp, evs):
    """Canonical form of an emitted/observed event list of one block: times rounded to EPS buckets are NOT used
    here (compared separately); consecutive accrual hit events of one dispatch are order-free."""
    if sp.type != "accrual":
        return list(evs)
    out, run = [], []
    for e in evs:
        if e[1] in sp.hit_events:
            run.append(e)
        else:
            out.extend(sorted(run, key=lambda x: (x[2], x[1])))
            run = []
            out.append(e)
    out.extend(sorted(run, key=lambda x: (x[2], x[1])))
    return out


def events_match(sp, exp, obs):
    if len(exp) != len(obs):
        return False
    a, b = norm_events(sp, exp), norm_events(sp, obs)
    for (t1, n1, k1), (t2, n2, k2) in zip(a, b):
        if n1 != n2 or k1 != k2 or abs(t1 - t2) > EPS:
            return False
    return True
