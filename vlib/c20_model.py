"""Reference model for C20 (credits).  Pure Python, exact rationals, no mpf import.

Money and credits are Fractions.  The pricing table is computed in CLOSED FORM (not incrementally like the code
under test):

    credits(S) = floor(S / P_top) * C_top + greedy(S mod P_top)
    greedy(r)  = take the most expensive tier that still fits, repeatedly; what is left buys r / price credits

where S is the money inserted since tier progress was last restarted ("session money").

The model keeps a SET of hypotheses (B, S, fd, ad): balance in credits, session money, pending deadline of the
fractional-credit expiry and of the total expiry.  Steps on which the property statement is silent FORK the
set (both outcomes admissible); an observation of the balance prunes it.  The oracle fails only when no
hypothesis explains the observed balance.
"""
from fractions import Fraction as F
from math import floor

EPS = 1e-6          # virtual seconds: |deadline - t| below this is an exact-instant coincidence => accept both
MAX_HYPS = 512


def cents(c):
    return F(int(c), 100)


def unit_rule(price, coin_values):
    """The documented credit-unit rule (credits.py _calculate_credit_units), in exact arithmetic."""
    mn = min(coin_values) if coin_values else price
    if mn == price:
        return mn
    if mn < price:
        return min(price - mn, mn)
    return min(mn - price, price)


def well_formed(price, coin_values, tier_prices):
    """Every amount of the configuration is a whole number of credit units."""
    u = unit_rule(price, coin_values)
    if u <= 0:
        return False
    for x in [price] + list(coin_values) + list(tier_prices):
        if (x / u).denominator != 1:
            return False
    return True


class Model:
    def __init__(self, price, tiers, max_credits, t_frac, t_all, free_play, coin_values):
        self.p = price                           # price of one game (Fraction, money)
        self.tiers = sorted(tiers)               # [(price, credits)] ascending, first is (p, 1)
        self.top_p, self.top_c = self.tiers[-1]
        self.max = max_credits                   # 0 = no cap
        self.t_frac = t_frac                     # seconds or None
        self.t_all = t_all
        self.mode = "free" if free_play else "credit"
        self.upg = int(price / unit_rule(price, coin_values))    # exact units per game
        self.hyps = {(F(0), F(0), None, None)}
        self.overflow = False
        # counters (what the model saw)
        self.n_cap = 0
        self.n_bonus = 0
        self.n_wrap = 0
        self.n_fire_frac = 0
        self.n_fire_all = 0
        self.n_fork = 0

    # -- pricing table, closed form ---------------------------------------------------
    def credits_for(self, s):
        q = s // self.top_p
        r = s - q * self.top_p
        c = F(q * self.top_c)
        for tp, tc in reversed(self.tiers):
            k = r // tp
            if k:
                c += k * tc
                r -= k * tp
        return c + r / self.p

    def _cap(self, old, new):
        if self.max and new > self.max:
            self.n_cap += 1
            return F(self.max)
        return new

    def _set(self, hyps):
        if len(hyps) > MAX_HYPS:
            self.overflow = True
            hyps = set(sorted(hyps, key=repr)[:MAX_HYPS])
        self.hyps = hyps

    def _map(self, fn):
        out = set()
        for h in self.hyps:
            out.update(fn(h))
        self._set(out)

    # -- time -------------------------------------------------------------------------
    def advance(self, t):
        """Fire every expiry deadline <= t; a deadline within EPS of t may or may not have fired yet."""
        out = set()
        stack = [(h, False, False) for h in self.hyps]
        while stack:
            (b, s, fd, ad), skipf, skipa = stack.pop()
            cands = []
            if fd is not None and not skipf and fd <= t + EPS:
                cands.append((fd, "f"))
            if ad is not None and not skipa and ad <= t + EPS:
                cands.append((ad, "a"))
            if not cands:
                out.add((b, s, fd, ad))
                continue
            d, k = min(cands)
            if k == "f":
                self.n_fire_frac += 1
                stack.append(((F(floor(b)), s, None, ad), skipf, skipa))
            else:
                self.n_fire_all += 1
                stack.append(((F(0), F(0), fd, None), skipf, skipa))
            if d >= t - EPS:          # coincidence: not fired yet is admissible too
                self.n_fork += 1
                stack.append(((b, s, fd, ad), skipf or k == "f", skipa or k == "a"))
        self._set(out)

    # -- inputs -----------------------------------------------------------------------
    def _arm(self, now, fd, ad):
        return (now + self.t_frac if self.t_frac else fd, now + self.t_all if self.t_all else ad)

    def coin(self, value, now):
        """A coin of `value` accepted in credit play."""
        def fn(h):
            b, s, fd, ad = h
            delta = self.credits_for(s + value) - self.credits_for(s)
            if delta > value / self.p:
                self.n_bonus += 1
            s2 = s + value
            if s2 >= self.top_p:
                self.n_wrap += 1
                s2 -= (s2 // self.top_p) * self.top_p
            fd2, ad2 = self._arm(now, fd, ad)
            return [(self._cap(b, b + delta), s2, fd2, ad2)]
        self._map(fn)

    def service_credit(self):
        self._map(lambda h: [(self._cap(h[0], h[0] + 1), h[1], h[2], h[3])])

    def award(self, n, now):
        def fn(h):
            b, s, fd, ad = h
            fd2, ad2 = self._arm(now, fd, ad)
            return [(self._cap(b, b + n), s, fd2, ad2)]
        self._map(fn)

    def player_added(self, resync_to=None):
        """One game price is deducted (credit play).  resync_to: observed balance after a gate violation."""
        if resync_to is not None:
            self._map(lambda h: [(resync_to, h[1], h[2], h[3])])
        else:
            self._map(lambda h: [(h[0] - 1, h[1], h[2], h[3])])

    def game_started(self):
        if self.mode == "credit":       # tier progress restarts, expiry is suspended (unit-tested behaviour)
            self._map(lambda h: [(h[0], F(0), None, None)])
        else:                           # statement silent while in free play: either
            self.n_fork += 1
            self._map(lambda h: [h, (h[0], F(0), None, None), (h[0], F(0), h[2], h[3]), (h[0], h[1], None, None)])

    def game_stopped(self, now):
        def fn(h):
            b, s, fd, ad = h
            fd2, ad2 = self._arm(now, fd, ad)
            if self.mode == "credit":
                return [(b, s, fd2, ad2)]
            return [h, (b, s, fd2, ad2)]
        self._map(fn)

    def ball2_player1(self):
        """Tier progress may restart here (once per game in the code; statement silent): either."""
        self.n_fork += 1
        self._map(lambda h: [h, (h[0], F(0), h[2], h[3])])

    def clear_all(self):
        self._map(lambda h: [(F(0), F(0), h[2], h[3])])

    def set_mode(self, mode):
        self.mode = mode

    # -- observation ------------------------------------------------------------------
    def observe(self, b):
        """Prune with the observed balance.  Returns True when some hypothesis explains it."""
        keep = {h for h in self.hyps if h[0] == b}
        if keep:
            self.hyps = keep
            return True
        self.hyps = {(b, h[1], h[2], h[3]) for h in self.hyps}       # resync, keep going
        return False

    def expected(self):
        return sorted({h[0] for h in self.hyps})
