"""Case seeds, shapes, JSON-safe conversion."""
import hashlib
import json
import random


def case_rng(seed, prop, tier, index):
    return random.Random("%s:%s:%s:%d" % (seed, prop, tier, index))


def jsonable(o, depth=0, strict=False):
    """JSON-safe copy.  strict=True also replaces nan/inf (evidence files must be strict JSON);
    strict=False keeps them (replay files are read back by Python's json, which accepts NaN/Infinity)."""
    if depth > 12:
        return "<deep>"
    if isinstance(o, (str, int, bool)) or o is None:
        return o
    if isinstance(o, float):
        if not strict:
            return o
        if o != o:
            return "nan"
        if o in (float("inf"), float("-inf")):
            return "inf" if o > 0 else "-inf"
        return o
    if isinstance(o, bytes):
        return {"__bytes__": o.hex()}
    if isinstance(o, (list, tuple)):
        return [jsonable(x, depth + 1, strict) for x in o]
    if isinstance(o, (set, frozenset)):
        return sorted((jsonable(x, depth + 1, strict) for x in o), key=repr)
    if isinstance(o, dict):
        return {str(k): jsonable(v, depth + 1, strict) for k, v in o.items()}
    return repr(o)


def digest(o):
    return hashlib.sha1(json.dumps(jsonable(o), sort_keys=True).encode()).hexdigest()[:12]
