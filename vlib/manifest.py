"""Regenerate MANIFEST.json from the check modules' metadata: python -m vlib.manifest"""
import importlib
import json
import os
import sys

HERE = os.path.dirname(os.path.dirname(os.path.abspath(__file__)))
sys.path.insert(0, HERE)
from vlib import run   # noqa

BASELINE_CMD = ("cd /repo && /venv/bin/python -m pytest -ra -q -p no:cacheprovider --timeout=900 "
                "--continue-on-collection-errors")


def main():
    mods = run.discover()
    props = [json.loads(l)["id"] for l in open(os.path.join(HERE, "properties.jsonl"))]
    checks = []
    na = []
    engines = {}
    ready = set(open(os.path.join(HERE, "checks", "READY")).read().split())
    for pid in props:
        if pid not in mods or pid not in ready:
            na.append({"property_id": pid, "reason": "check not built yet in this session (planned in DESIGN.md); "
                                                     "nothing is claimed for it"})
            continue
        m = importlib.import_module("checks." + mods[pid])
        if getattr(m, "NOT_CLAIMED", None):
            na.append({"property_id": pid, "reason": m.NOT_CLAIMED})
            continue
        checks.append({
            "property_id": pid,
            "quick_cmd": "./check %s --tier quick" % pid,
            "thorough_cmd": "./check %s --tier thorough" % pid,
            "evidence_file": "evidence/%s.json" % pid,
            "replay_cmd_template": "./check %s --replay {path}" % pid,
            "engine": "vlib",
            "level_claimed": {"category": m.LEVEL, "text": m.LEVEL_TEXT, "design_ref": "DESIGN.md §2 " + pid},
            "level_note": m.LEVEL_NOTE,
            "technique": m.TECHNIQUE,
        })
        for e in getattr(m, "ENGINES", ["vlib"]):
            engines.setdefault(e, []).append(pid)
    man = {
        "version": 1,
        "setup_cmd": "./check --setup",
        "hooks": {
            "guard": "MPF_VERIF",
            "enable": "no source hooks: every observation point is wrapped at run time from /verif (class-level "
                      "monkeypatches, recording handlers, mock serial ports, strace); checks import /repo's working "
                      "tree directly (PYTHONPATH=/repo, import guard) so there is nothing to build",
            "baseline_off_cmd": BASELINE_CMD,
            "source_commits": [],
            "add_only": True,
        },
        "engines": [
            {"name": "vlib", "path": "vlib/", "serves_properties": sorted(engines.get("vlib", [])),
             "kind_free_text": "case generator + subprocess fan-out + oracle aggregation + evidence writer; machine "
                               "factory on MPF's TimeTravelLoop (virtual time)"},
        ],
        "checks": checks,
        "not_applicable": na,
        "notes": "Runtime monitoring only: real MPF objects driven by generated workloads in virtual time, oracles "
                 "are reference models / invariants evaluated on recorded histories. Genuine defects that are not "
                 "repaired are listed by mechanism in KNOWN_FINDINGS.json; repaired ones are 'fix:' commits in /repo.",
    }
    for e, ps in engines.items():
        if e != "vlib":
            man["engines"].append({"name": e, "path": "vlib/%s.py" % e, "serves_properties": sorted(ps),
                                   "kind_free_text": "reference model / simulated environment used as oracle"})
    with open(os.path.join(HERE, "MANIFEST.json"), "w") as f:
        json.dump(man, f, indent=1)
    print("MANIFEST.json: %d checks, %d not_applicable" % (len(checks), len(na)))


if __name__ == "__main__":
    main()
