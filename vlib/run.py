"""Driver: fan cases out to worker subprocesses, aggregate, decide, write evidence."""
import concurrent.futures as cf
import importlib
import json
import os
import shutil
import subprocess
import sys
import tempfile
import time

HERE = os.path.dirname(os.path.dirname(os.path.abspath(__file__)))
PY = "/venv/bin/python"
MODULES = {}   # filled by discover()


def discover():
    d = os.path.join(HERE, "checks")
    for fn in sorted(os.listdir(d)):
        if fn.startswith("c") and fn.endswith(".py"):
            MODULES[fn[:3].upper()] = fn[:-3]
    return MODULES


def load_known():
    p = os.path.join(HERE, "KNOWN_FINDINGS.json")
    if not os.path.exists(p):
        return {}
    data = json.load(open(p))
    return {f["signature"]: f for f in data.get("findings", [])}


def worker_env():
    env = dict(os.environ)
    env["PYTHONHASHSEED"] = "0"
    env["MPF_VERIF"] = "1"
    tree = os.path.abspath(env.get("VERIF_TREE", "/repo"))
    env["VERIF_TREE"] = tree
    deps = os.path.join(HERE, ".deps")
    env["PYTHONPATH"] = os.pathsep.join([tree, HERE] + ([deps] if os.path.isdir(deps) else []))
    env["PYTHONDONTWRITEBYTECODE"] = "1"
    return env


def run_batch(modname, tier, seed, start, count, outdir, timeout, env):
    out = os.path.join(outdir, "b%07d.jsonl" % start)
    if os.path.exists(out):
        os.remove(out)
    cmd = [PY, "-m", "vlib.worker", modname, tier, str(seed), str(start), str(count), out]
    try:
        p = subprocess.run(cmd, cwd=HERE, env=env, timeout=timeout, stdout=subprocess.PIPE,
                           stderr=subprocess.PIPE)
        rc, err = p.returncode, p.stderr.decode(errors="replace")[-2000:]
    except subprocess.TimeoutExpired:
        rc, err = -9, "batch watchdog (%ss) fired" % timeout
    recs = []
    if os.path.exists(out):
        for line in open(out):
            try:
                recs.append(json.loads(line))
            except ValueError:
                pass
    return {"start": start, "count": count, "rc": rc, "err": err, "recs": recs}


def main_check(prop, tier, seed, replay=None):
    discover()
    if prop not in MODULES:
        print("unknown property %s" % prop)
        return 2
    modname = MODULES[prop]
    env = worker_env()
    sys.path.insert(0, HERE)
    known = load_known()
    env["VERIF_KNOWN_SIGS"] = ",".join(known)
    # the parent imports the check module only for its metadata (no mpf import at module level)
    sys.path.insert(0, env["VERIF_TREE"])
    mod = importlib.import_module("checks." + modname)
    if replay:
        return do_replay(mod, modname, replay, env, known)

    t0 = time.time()
    tcfg = mod.TIERS[tier]
    n, bsz = tcfg["cases"], tcfg["batch"]
    case_timeout = tcfg.get("case_timeout", 60)
    batch_timeout = tcfg.get("batch_timeout", max(120, int(bsz * case_timeout * 0.25) + 60))
    outdir = tempfile.mkdtemp(prefix="verif-run-")
    results = []
    inconclusive_batches = []
    try:
        starts = list(range(0, n, bsz))
        jobs = int(os.environ.get("VERIF_JOBS", "16"))
        with cf.ThreadPoolExecutor(max_workers=jobs) as ex:
            futs = [ex.submit(run_batch, modname, tier, seed, s, min(bsz, n - s), outdir, batch_timeout, env)
                    for s in starts]
            retry = []
            for f in cf.as_completed(futs):
                r = f.result()
                if r["rc"] != 0 or len(r["recs"]) < r["count"]:
                    retry.append(r)
                else:
                    results.append(r)
            futs = [ex.submit(run_batch, modname, tier, seed, r["start"], r["count"], outdir,
                              batch_timeout * 2, env) for r in retry]
            for f in cf.as_completed(futs):
                r = f.result()
                if r["rc"] != 0 or len(r["recs"]) < r["count"]:
                    inconclusive_batches.append({"start": r["start"], "count": r["count"], "rc": r["rc"],
                                                 "err": r["err"][-600:], "got": len(r["recs"])})
                results.append(r)     # whatever cases completed are still observations
    finally:
        shutil.rmtree(outdir, ignore_errors=True)
    return aggregate(mod, prop, tier, seed, results, inconclusive_batches, known, time.time() - t0)


def aggregate(mod, prop, tier, seed, results, inconclusive_batches, known, wall):
    recs = sorted((rec for r in results for rec in r["recs"]), key=lambda x: x["i"])
    clauses = {}
    shapes = set()
    samples = []
    obs = {}
    status = {}
    viols = []
    harness_errors = []
    for rec in recs:
        status[rec["status"]] = status.get(rec["status"], 0) + 1
        if rec["status"] == "harness_error":
            harness_errors.append({"i": rec["i"], "error": rec.get("error", "")[-1500:]})
        for k, v in rec.get("clauses", {}).items():
            clauses[k] = clauses.get(k, 0) + int(v)
        for k, v in rec.get("obs", {}).items():
            if isinstance(v, (int, float)):
                obs[k] = obs.get(k, 0) + v
        if rec.get("nontrivial"):
            shapes.add(rec.get("shape", ""))
            if len(samples) < 3 and "case" in rec and not rec["violations"]:
                samples.append({"case": rec["case"], "clauses": rec.get("clauses"), "obs": rec.get("obs"),
                                "trace": rec.get("trace")})
        for v in rec.get("violations", []):
            viols.append((rec, v))

    evdir = os.environ.get("VERIF_EVIDENCE_DIR") or os.path.join(HERE, "evidence")
    os.makedirs(os.path.join(evdir, "replays"), exist_ok=True)
    printed_known = set()
    new_sigs = {}
    known_hits = {}
    for rec, v in viols:
        sig = v.get("sig", "unknown")
        if sig in known:
            known_hits[sig] = known_hits.get(sig, 0) + 1
            if sig not in printed_known:
                printed_known.add(sig)
                print("KNOWN-FINDING: property=%s %s (%s)" % (prop, known[sig].get("what", sig), sig))
        else:
            new_sigs.setdefault(sig, []).append((rec, v))
    from vlib import caseio
    replay_paths = []
    for sig, lst in new_sigs.items():
        # prefer a witness that was shrunk for THIS signature; otherwise the unshrunk case of a record showing it
        def wcase(rv):
            r = rv[0]
            if r.get("case_sig") == sig or "case_full" not in r:
                return r.get("case")
            return r.get("case_full")
        own = [rv for rv in lst if rv[0].get("case_sig") == sig]
        rec, v = min(own or lst, key=lambda rv: len(json.dumps(wcase(rv) or "")))
        wc = wcase((rec, v))
        path = os.path.join(evdir, "replays", "%s-%s.json" % (prop, caseio.digest([sig, wc])))
        with open(path, "w") as f:
            json.dump({"property": prop, "module": mod.__name__, "sig": sig, "violation": v,
                       "case": wc, "seed": seed, "tier": tier, "index": rec["i"],
                       "count": len(lst)}, f, indent=1)
        replay_paths.append(path)
        print("VIOLATION property=%s replay=%s" % (prop, path))
        print("  sig=%s clause=%s count=%d detail=%s" % (sig, v.get("clause"), len(lst),
                                                         json.dumps(v.get("detail"))[:1500]))

    min_evals = getattr(mod, "MIN_EVALS", {}).get(tier, getattr(mod, "MIN_EVALS", {}).get("quick", {}))
    short = {k: (clauses.get(k, 0), m) for k, m in min_evals.items() if clauses.get(k, 0) < m}
    n_cases = len(recs)
    bad = status.get("harness_error", 0) + status.get("timeout", 0)
    inconclusive = bool(short) or (n_cases == 0) or (bad > max(2, 0.02 * n_cases))

    if not samples:
        for rec in recs:
            if "case" in rec:
                samples.append({"case": rec["case"], "clauses": rec.get("clauses")})
                break
    ev = {
        "property_id": prop, "tier": tier, "seed": int(seed), "level": mod.LEVEL,
        "coverage": {
            "evaluations": n_cases,
            "distinct_nontrivial": len(shapes),
            "rule": mod.RULE,
            "samples": samples[:3],
            "per_clause_oracle_evaluations": clauses,
            "observed": obs,
            "case_status": status,
            "inconclusive_batches": inconclusive_batches,
            "known_findings_hit": known_hits,
            "clauses_below_minimum": {k: {"got": a, "min": b} for k, (a, b) in short.items()},
            "harness_errors": harness_errors[:5],
            "horizons": getattr(mod, "HORIZONS", {}),
        },
        "assumptions": list(getattr(mod, "ASSUMPTIONS", [])),
        "wall_s": round(wall, 2),
        "violations": len(new_sigs),
    }
    if hasattr(mod, "extra_coverage"):
        ev["coverage"].update(mod.extra_coverage(recs))
    if getattr(mod, "EXHAUSTIVE", False):
        ev["coverage"]["exhaustive"] = True
    verdict = "violated" if new_sigs else ("inconclusive" if inconclusive else "held_on_observed")
    ev["coverage"]["verdict"] = verdict
    with open(os.path.join(evdir, "%s.json" % prop), "w") as f:
        json.dump(caseio.jsonable(ev, strict=True), f, indent=1, allow_nan=False)
    print("%s tier=%s seed=%s cases=%d distinct_nontrivial=%d clauses=%s status=%s wall=%.1fs verdict=%s" % (
        prop, tier, seed, n_cases, len(shapes), json.dumps(clauses), json.dumps(status), wall, verdict))
    if harness_errors:
        print("  harness_errors=%d first: %s" % (len(harness_errors), harness_errors[0]["error"][-800:]))
    if inconclusive_batches:
        print("  inconclusive_batches=%s" % json.dumps(inconclusive_batches)[:800])
    if new_sigs:
        return 1
    if inconclusive:
        print("INCONCLUSIVE property=%s %s" % (prop, json.dumps(ev["coverage"]["clauses_below_minimum"])))
        return 2
    return 0


def do_replay(mod, modname, path, env, known):
    data = json.load(open(path))
    code = ("import json,sys; sys.path.insert(0,%r); from vlib import boot, worker; boot.guard_import();"
            "import importlib; m=importlib.import_module('checks.%s');"
            "d=json.load(open(%r)); r=worker.run_one(m,d['case'],600);"
            "print(json.dumps(__import__('vlib.caseio').caseio.jsonable(r)))" % (HERE, modname, path))
    tmp = tempfile.mkdtemp(prefix="verif-replay-")
    env = dict(env, TMPDIR=tmp)
    try:
        p = subprocess.run([PY, "-c", code], cwd=HERE, env=env, stdout=subprocess.PIPE, stderr=subprocess.PIPE,
                           timeout=1200)
    finally:
        shutil.rmtree(tmp, ignore_errors=True)
    if p.returncode != 0:
        print(p.stderr.decode()[-3000:])
        return 2
    r = json.loads(p.stdout.decode().strip().splitlines()[-1])
    print(json.dumps(r, indent=1)[:6000])
    bad = [v for v in r.get("violations", []) if v.get("sig") not in known]
    if bad:
        print("VIOLATION property=%s replay=%s" % (data["property"], path))
        return 1
    for v in r.get("violations", []):
        print("KNOWN-FINDING: property=%s %s" % (data["property"], v.get("sig")))
    return 0
