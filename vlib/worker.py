"""Worker: runs a contiguous range of generated cases of one check in this process.

Usage: python -m vlib.worker <module> <tier> <seed> <start> <count> <outfile>
One JSON line per case is appended to <outfile>.
"""
import importlib
import json
import os
import shutil
import signal
import sys
import tempfile
import time
import traceback


class CaseTimeout(BaseException):
    pass


def _alarm(signum, frame):
    raise CaseTimeout()


def run_one(mod, case, timeout):
    """Run one case, return the result dict (never raises)."""
    t0 = time.time()
    signal.signal(signal.SIGALRM, _alarm)
    signal.alarm(int(timeout))
    try:
        res = mod.run_case(case)
        res.setdefault("violations", [])
        res.setdefault("clauses", {})
        res.setdefault("shape", "")
        res.setdefault("nontrivial", bool(res["clauses"]))
        res["status"] = "ok"
    except CaseTimeout:
        res = {"status": "timeout", "violations": [], "clauses": {}, "shape": "", "nontrivial": False}
    except BaseException as e:    # harness error: never a verdict
        if isinstance(e, (KeyboardInterrupt, SystemExit)):
            raise
        res = {"status": "harness_error", "error": traceback.format_exc()[-3000:], "violations": [],
               "clauses": {}, "shape": "", "nontrivial": False}
    finally:
        signal.alarm(0)
    res["wall"] = round(time.time() - t0, 4)
    return res


def shrink(mod, case, sig, timeout, budget_s=20.0):
    """Greedy op-dropping while the same signature still fails."""
    keys = getattr(mod, "SHRINK_KEYS", None)
    if not keys:
        return case
    t_end = time.time() + budget_s
    best = case
    for key in keys:
        ops = best.get(key)
        if not isinstance(ops, list):
            continue
        chunk = max(1, len(ops) // 2)
        while time.time() < t_end:
            i = 0
            while i < len(best[key]) and time.time() < t_end:
                cand = dict(best)
                cand[key] = best[key][:i] + best[key][i + chunk:]
                r = run_one(mod, json.loads(json.dumps(cand)), timeout)
                if r["status"] == "ok" and any(v.get("sig") == sig for v in r["violations"]):
                    best = cand
                else:
                    i += chunk
            if chunk == 1:
                break
            chunk = max(1, chunk // 2)
    return best


def main(argv):
    modname, tier, seed, start, count, outfile = argv[:6]
    start, count = int(start), int(count)
    base = tempfile.mkdtemp(prefix="verif-w-")
    os.environ["TMPDIR"] = base
    tempfile.tempdir = base
    sys.path.insert(0, os.path.dirname(os.path.dirname(os.path.abspath(__file__))))
    from vlib import boot, caseio
    try:
        boot.guard_import()
        mod = importlib.import_module("checks." + modname)
        tcfg = mod.TIERS[tier]
        timeout = tcfg.get("case_timeout", 60)
        shrunk_sigs = set()
        shrink_spent = [0.0]
        with open(outfile, "a") as out:
            for i in range(start, start + count):
                rng = caseio.case_rng(seed, mod.PROPERTY, tier, i)
                try:
                    case = mod.gen_case(rng, tier, i)
                except BaseException:
                    rec = {"i": i, "status": "harness_error", "error": traceback.format_exc()[-3000:],
                           "violations": [], "clauses": {}, "shape": "", "nontrivial": False}
                    out.write(json.dumps(rec) + "\n")
                    out.flush()
                    continue
                res = run_one(mod, case, timeout)
                res["i"] = i
                if res["violations"]:
                    sig = res["violations"][0].get("sig")
                    known = set(os.environ.get("VERIF_KNOWN_SIGS", "").split(","))
                    small = case
                    # shrink only the first witness of each unlisted signature in this worker, within a time budget
                    if sig not in known and sig not in shrunk_sigs and os.environ.get("VERIF_NO_SHRINK") != "1" \
                            and shrink_spent[0] < 40.0:
                        shrunk_sigs.add(sig)
                        t_s = time.time()
                        try:
                            small = shrink(mod, case, sig, timeout)
                        except BaseException:
                            small = case
                        shrink_spent[0] += time.time() - t_s
                    res["case"] = caseio.jsonable(small)
                    res["case_sig"] = sig
                    if len(set(v.get("sig") for v in res["violations"])) > 1 and small is not case:
                        res["case_full"] = caseio.jsonable(case)
                elif res["nontrivial"] and i < start + 2:
                    res["case"] = caseio.jsonable(case)
                out.write(json.dumps(caseio.jsonable(res)) + "\n")
                out.flush()
    finally:
        shutil.rmtree(base, ignore_errors=True)


if __name__ == "__main__":
    main(sys.argv[1:])
